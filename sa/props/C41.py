"""C41 — future, callback and blocking bridges keep their contracts (S1)."""
from __future__ import annotations

import ast
from typing import Optional

from ..astutil import call_name, dotted, short, u
from ..core import Report
from ..ctx import paths, sites
from ..frontend import Repo
from ..model import is_schedule_call
from ..rules import cell_name, has_guard, locals_by_init, names_assigned_const

FF = "reactivex/observable/fromfuture.py"
FC = "reactivex/observable/fromcallback.py"
TA = "reactivex/observable/toasync.py"
ST = "reactivex/observable/start.py"
SA = "reactivex/observable/startasync.py"
TF = "reactivex/operators/_tofuture.py"
RUN = "reactivex/run.py"


def down(obs: str):
    def ev(n: ast.AST) -> Optional[str]:
        if isinstance(n, ast.Call) and isinstance(n.func, ast.Attribute) and dotted(n.func.value) == obs \
                and n.func.attr in ("on_next", "on_error", "on_completed"):
            return {"on_next": "NEXT", "on_error": "ERR", "on_completed": "COMPL"}[n.func.attr]
        return None
    return ev


def check(repo: Repo, rep: Report) -> None:
    rep.explanation = (
        "Single-shot typestate of the bridges, by path enumeration of their callbacks: from_future_.done — result => "
        "on_next then on_completed, exception or cancellation => on_error only; unsubscribing cancels the future. "
        "from_callback_.handler — every non-error path emits exactly once and then completes (with and without a mapper), "
        "a raising mapper => on_error only; the function is called once with the handler as last argument. to_async_ — "
        "result into an AsyncSubject then on_completed, exception => on_error only; start_ = to_async(func, scheduler)(). "
        "to_future_ / run — completion decides by the has_value flag between the last value and "
        "SequenceContainsNoElementsError, an error resolves / raises the exception, on_next only records the last value.")
    rep.assumptions += ["asyncio / concurrent futures behave as documented; emitted *values* are not decided"]
    rep.rule("T1-single-shot", "bridge callbacks: exactly one value then completion, or exactly one error", floor=6)
    rep.rule("T2-wiring", "registration / cancellation / delegation wiring of the bridges", floor=5)
    rep.rule("T4-bridge-scheduler", "run / to_async resolve their scheduler by `given or <default>` and use the resolved one", floor=3)
    rn = repo.fn("reactivex/run.py", "run")
    sp = [p_ for p_ in rn.params if "sched" in p_]
    defs_ = [n_.value for n_ in rn.direct_nodes() if isinstance(n_, ast.Assign) and sp and u(n_.targets[0]) == sp[0]]
    okr = len(defs_) == 1 and isinstance(defs_[0], ast.BoolOp) and isinstance(defs_[0].op, ast.Or) and u(defs_[0].values[0]) == sp[0] and len(defs_[0].values) == 2
    rep.ob("T4-bridge-scheduler", rn, f"run: `{sp[0] if sp else '?'} = {short(defs_[0], 50) if defs_ else '?'}`", okr,
           "run() does not fall back to its default scheduler when none is given (or ignores the one given)")
    from ..model import is_subscribe_call as _isub
    subs_ = [x for x in sites(rn) if _isub(x.node)]
    oks = bool(subs_) and all(any(k.arg == "scheduler" and sp and u(k.value) == sp[0] for k in x.node.keywords) for x in subs_)
    rep.ob("T4-bridge-scheduler", rn, "run: source.subscribe(..., scheduler=scheduler)", oks,
           "run() subscribes the source without the scheduler it resolved: run(source, scheduler) ignores its argument")
    ta = repo.fn("reactivex/observable/toasync.py", "to_async_")
    tp = [p_ for p_ in ta.params if "sched" in p_]
    dd = [n_ for n_ in ta.direct_nodes() if isinstance(n_, ast.Assign) and isinstance(n_.value, ast.BoolOp) and isinstance(n_.value.op, ast.Or)
          and tp and u(n_.value.values[0]) == tp[0] and isinstance(n_.value.values[-1], ast.Call)]
    used = bool(dd) and any(isinstance(x.node, ast.Call) and isinstance(x.node.func, ast.Attribute) and x.node.func.attr.startswith("schedule") and u(x.node.func.value) == u(dd[0].targets[0])
                            for g_ in ta.walk() if g_.is_func for x in sites(g_))
    rep.ob("T4-bridge-scheduler", ta, "to_async: `_scheduler = scheduler or <default>()` and the call is scheduled on it", len(dd) == 1 and used,
           "to_async does not resolve its scheduler by `given or default` (a missing scheduler is None -> AttributeError; a given one is ignored)")
    rep.rule("T3-blocking-result", "to_future / run: last value iff has_value, else SequenceContainsNoElementsError; error => exception", floor=5)
    # from_future_
    done = repo.fn(FF, "from_future_.subscribe.done")
    for p in paths(done, down("observer")):
        desc = f"done path[exc={p.exc}] -> {p.kinds}"
        want = ["ERR"] if p.exc else ["NEXT", "COMPL"]
        rep.ob("T1-single-shot", done, desc, p.kinds == want,
               "from_future: a completed future does not yield exactly (result, completion) / a failed or cancelled one exactly an error")
    hs = [h for s in sites(done) if isinstance(s.node, ast.Try) for h in s.node.handlers]
    types = " ".join(u(h.type) if h.type is not None else "BaseException" for h in hs)
    rep.ob("T2-wiring", done, "handlers cover Exception and CancelledError", "Exception" in types and ("CancelledError" in types or "BaseException" in types),
           "a cancelled future's CancelledError is not caught: cancellation is not delivered as on_error")
    fsub = repo.fn(FF, "from_future_.subscribe")
    reg = any(isinstance(s.node, ast.Call) and dotted(s.node.func) == "future.add_done_callback" and u(s.node.args[0]) == "done" for s in sites(fsub))
    rep.ob("T2-wiring", fsub, "future.add_done_callback(done)", reg, "the done callback is not registered on the future")
    disp = repo.fn(FF, "from_future_.subscribe.dispose")
    # the cancel is decided by nothing but the presence of the future itself (`if future:`): not by its state
    canc = any(isinstance(s.node, ast.Call) and dotted(s.node.func) == "future.cancel" and all(u(e) == "future" and p_ for e, p_ in s.ctx.guards)
               for s in sites(disp))
    ret = any(isinstance(s.node, ast.Return) and isinstance(s.node.value, ast.Call) and call_name(s.node.value) == "Disposable"
              and u(s.node.value.args[0]) == "dispose" for s in sites(fsub))
    rep.ob("T2-wiring", fsub, "unsubscribe cancels the future", canc and ret, "unsubscribing first does not cancel the future")
    # from_callback_
    h = repo.fn(FC, "from_callback_.function.subscribe.handler")
    n = 0
    for p in paths(h, down("observer")):
        n += 1
        desc = f"handler path[{' ; '.join(f'{t}={v}' for t, v in p.decisions)} exc={p.exc}] -> {p.kinds}"
        want = ["ERR"] if p.exc else ["NEXT", "COMPL"]
        rep.ob("T1-single-shot", h, desc, p.kinds == want,
               "from_callback: the handler does not emit exactly one value and then complete (or exactly one error when the mapper raises)")
    rep.require(n >= 3, "paths of from_callback_ handler")
    # the element is what the callback received: the callback's own arguments (or the mapper's result over them); whether a
    # lone value is delivered bare or the values as a list is decided by how many values THE CALLBACK received
    rep.rule("T5-callback-payload", "from_callback: the delivered value is built from the callback's arguments and shaped by their count", floor=1)
    cargs = h.node.args.vararg.arg if h.node.args.vararg else None
    derived = {cargs} if cargs else set()
    for n_ in h.direct_nodes():
        if isinstance(n_, ast.Assign) and len(n_.targets) == 1 and isinstance(n_.targets[0], ast.Name) and \
                any(isinstance(x, ast.Name) and x.id in derived for x in ast.walk(n_.value)):
            derived.add(n_.targets[0].id)
    for s in sites(h):
        if isinstance(s.node, ast.Call) and isinstance(s.node.func, ast.Attribute) and s.node.func.attr == "on_next" and dotted(s.node.func.value) == "observer":
            a0 = s.node.args[0] if s.node.args else None
            star = isinstance(a0, ast.Starred)
            nm = u(a0.value) if star else (u(a0) if a0 is not None else None)
            rep.ob("T5-callback-payload", h, f"`{short(s.node)}` delivers the callback's values", nm in derived,
                   f"from_callback delivers `{nm}`, which is not derived from the arguments the callback received")
            if star:
                from ..rules import effective_test as _eff
                lens = [e for e, pol in s.ctx.guards if any(
                    isinstance(c_, ast.Compare) and any(isinstance(x, ast.Call) and call_name(x) == "len" and x.args and u(x.args[0]) == nm for x in ast.walk(c_))
                    for c_ in ast.walk(_eff(h, e)))]
                rep.ob("T5-callback-payload", h, f"`{short(s.node)}` unpacks {nm} only under a test of len({nm})", bool(lens),
                       f"from_callback unpacks `{nm}` into on_next without the decision being made on len({nm}): with a different "
                       f"number of callback values the call fails (TypeError) or a lone value is delivered as a list")
    # a mapper's result is delivered as it is: un-wrapping a lone value is for the callback's raw arguments only (no mapper)
    fcb = repo.fn(FC, "from_callback_")
    mp = next((p_ for p_ in fcb.params if "mapper" in p_), None)
    from ..rules import expanded_guards as _eg
    for s in sites(h):
        n_ = s.node
        reshape = None
        if isinstance(n_, ast.Call) and isinstance(n_.func, ast.Attribute) and n_.func.attr == "on_next" and n_.args and isinstance(n_.args[0], ast.Starred):
            reshape = n_
        elif isinstance(n_, ast.Assign) and isinstance(n_.targets[0], (ast.Tuple, ast.List)) and isinstance(n_.value, ast.Name) and n_.value.id in derived:
            reshape = n_
        elif isinstance(n_, ast.Subscript) and isinstance(n_.value, ast.Name) and n_.value.id in derived and isinstance(n_.ctx, ast.Load) \
                and isinstance(n_.slice, ast.Constant):
            reshape = n_
        if reshape is not None:
            okm = mp is not None and any(u(e_) == mp and not pol_ for e_, pol_ in _eg(h, s.ctx))
            rep.ob("T5-callback-payload", h, f"`{short(reshape, 50)}` un-wraps the callback's raw arguments only (no mapper)", okm,
                   f"from_callback un-wraps a lone value (`{short(reshape, 50)}`) on a path that a mapper's result also takes: a mapper that returns a "
                   f"one-element list has its element delivered instead of the list")
    csub = repo.fn(FC, "from_callback_.function.subscribe")
    calls = [s for s in sites(csub) if isinstance(s.node, ast.Call) and isinstance(s.node.func, ast.Name) and s.node.func.id == "func"]
    ok = len(calls) == 1 and calls[0].node.args and u(calls[0].node.args[-1]) == "handler" and not calls[0].ctx.loops
    rep.ob("T2-wiring", csub, "func(*arguments, handler) once", ok, "the wrapped function is not called exactly once with the handler as its last argument")
    # to_async_
    act = repo.fn(TA, "to_async_.wrapper.action")
    wr = repo.fn(TA, "to_async_.wrapper")
    subjs = locals_by_init(wr, lambda v: isinstance(v, ast.Call) and call_name(v) == "AsyncSubject")
    for p in paths(act, down(subjs[0] if len(subjs) == 1 else "?subject")):
        desc = f"action path[exc={p.exc}] -> {p.kinds}"
        want = ["ERR"] if p.exc else ["NEXT", "COMPL"]
        rep.ob("T1-single-shot", act, desc, p.kinds == want,
               "to_async/start: the function's result is not delivered as exactly (result, completion), or its exception as exactly an error")
    subj = len(subjs) == 1
    sch = any(is_schedule_call(s.node) and s.node.func.attr == "schedule" and s.node.args and u(s.node.args[0]) == "action" for s in sites(wr))
    rep.ob("T2-wiring", wr, "AsyncSubject + _scheduler.schedule(action)", subj and sch,
           "to_async does not run the function once on the scheduler and multicast its single result through an AsyncSubject")
    st = repo.fn(ST, "start_")
    ok = any(isinstance(s.node, ast.Return) and u(s.node.value) == "to_async(func, scheduler)()" for s in sites(st))
    rep.ob("T2-wiring", st, "start_ = to_async(func, scheduler)()", ok, "start no longer delegates to to_async(func, scheduler)()")
    sa = repo.fn(SA, "start_async_")
    futs = [u(s.node.targets[0]) for s in sites(sa) if isinstance(s.node, ast.Assign) and u(s.node.value) == f"{sa.params[0]}()" and s.ctx.tries]
    ok = bool(futs) and any(isinstance(s.node, ast.Return) and u(s.node.value) == f"from_future({futs[0]})" for s in sites(sa)) and \
        any(isinstance(s.node, ast.Return) and u(s.node.value) == "throw(ex)" and s.ctx.handlers for s in sites(sa))
    rep.ob("T2-wiring", sa, "start_async_: from_future(function_async()) / throw(ex)", ok,
           "start_async does not bridge the returned future (or a failing factory) correctly")
    # to_future_
    tf = repo.fn(TF, "to_future_.to_future")
    oc = repo.fn(TF, "to_future_.to_future.on_completed")

    on = repo.fn(TF, "to_future_.to_future.on_next")
    # roles: future = what to_future returns; has_value = the cell on_next sets True; last_value = the cell on_next
    # assigns its element to
    futs = {u(s.node.value) for s in sites(tf) if isinstance(s.node, ast.Return) and isinstance(s.node.value, ast.Name)}
    rep.require(len(futs) == 1, "to_future: returned future")
    fut = next(iter(futs))
    hvs = names_assigned_const(on, True)
    lvs = [cell_name(n.targets[0]) for n in on.direct_nodes() if isinstance(n, ast.Assign) and u(n.value) == on.params[0] and cell_name(n.targets[0])]
    hv_name = hvs[0] if len(hvs) == 1 else "?has-value"
    lv_name = lvs[0] if len(lvs) == 1 else "?last-value"

    def fev(n: ast.AST) -> Optional[str]:
        if isinstance(n, ast.Call) and dotted(n.func) == f"{fut}.set_result":
            return "RESULT:" + u(n.args[0])
        if isinstance(n, ast.Call) and dotted(n.func) == f"{fut}.set_exception":
            return "EXC:" + u(n.args[0])
        return None
    for p in paths(oc, fev):
        if p.exc:
            continue
        hv = p.decided(hv_name)
        if hv is None:
            hv = p.decided(f"{hv_name}[0]")
        canc = p.decided(f"{fut}.cancelled()")
        desc = f"on_completed path[{' ; '.join(f'{t}={v}' for t, v in p.decisions)}] -> {p.kinds}"
        if canc:
            ok = p.kinds == []
        elif hv:
            ok = len(p.kinds) == 1 and p.kinds[0].startswith("RESULT:") and lv_name in p.kinds[0]
        else:
            ok = p.kinds == ["EXC:SequenceContainsNoElementsError()"]
        rep.ob("T3-blocking-result", oc, desc, ok,
               "to_future/await: completion does not resolve to the last value iff one was seen (has_value flag), else "
               "SequenceContainsNoElementsError")
    oe = repo.fn(TF, "to_future_.to_future.on_error")
    for p in paths(oe, fev):
        if p.exc:
            continue
        canc = p.decided(f"{fut}.cancelled()")
        rep.ob("T3-blocking-result", oe, f"on_error path -> {p.kinds}", p.kinds == ([] if canc else [f"EXC:{oe.params[0]}"]),
               "to_future: an error does not become the future's exception")
    ok = any(isinstance(s.node, ast.Assign) and cell_name(s.node.targets[0]) == lv_name and u(s.node.value) == on.params[0] and not s.ctx.branch for s in sites(on)) \
        and any(isinstance(s.node, ast.Assign) and cell_name(s.node.targets[0]) == hv_name and u(s.node.value) == "True" and not s.ctx.branch for s in sites(on))
    rep.ob("T3-blocking-result", on, "on_next records last_value and has_value unconditionally", ok,
           "to_future does not record every element as the (new) last value")
    subs = [s for s in sites(tf) if isinstance(s.node, ast.Call) and dotted(s.node.func) == "source.subscribe"]
    ok = len(subs) == 1 and [u(a) for a in subs[0].node.args[:3]] == ["on_next", "on_error", "on_completed"]
    rep.ob("T2-wiring", tf, "source.subscribe(on_next, on_error, on_completed)", ok, "to_future's handlers are not wired to their slots")
    # run
    run = repo.fn(RUN, "run")
    rn = repo.fn(RUN, "run.on_next")
    re_ = repo.fn(RUN, "run.on_error")
    # roles: result / has_result = what on_next records; exception = the cell on_error assigns its argument to;
    # latch = the threading.Event local; done = the cell both terminal handlers set True
    res_v = [cell_name(n.targets[0]) for n in rn.direct_nodes() if isinstance(n, ast.Assign) and u(n.value) == rn.params[0] and cell_name(n.targets[0])]
    has_v = names_assigned_const(rn, True)
    exc_v = [cell_name(n.targets[0]) for n in re_.direct_nodes() if isinstance(n, ast.Assign) and u(n.value) == re_.params[0] and cell_name(n.targets[0])]
    latches = locals_by_init(run, lambda v: isinstance(v, ast.Call) and call_name(v) == "Event")
    result = res_v[0] if len(res_v) == 1 else "?result"
    has_result = has_v[0] if len(has_v) == 1 else "?has-result"
    exception = exc_v[0] if len(exc_v) == 1 else "?exception"
    latch = latches[0] if len(latches) == 1 else "?latch"
    rz = [s for s in sites(run) if isinstance(s.node, ast.Raise)]
    from ..rules import uc
    def exc_present(e, p_):
        return (p_ and uc(e) in (exception, f"{exception} is not None")) or ((not p_) and uc(e) == f"{exception} is None")
    exc_raise = [s for s in rz if any(exc_present(e, p_) for e, p_ in s.ctx.guards)
                 and any(isinstance(x, ast.Name) and x.id == exception for x in ast.walk(s.node.exc))]
    from ..rules import uc
    none_raise = [s for s in rz if has_guard(s.ctx, has_result, False) and "SequenceContainsNoElementsError" in u(s.node.exc)]
    ret = [s for s in sites(run) if isinstance(s.node, ast.Return) and uc(s.node.value) == result]
    ok = bool(exc_raise) and bool(none_raise) and bool(ret) and exc_raise[0].index < none_raise[0].index < ret[0].index
    rep.ob("T3-blocking-result", run, "raise error; raise SequenceContainsNoElementsError if no element; return last", ok,
           "run(): the blocking result is not (error raised, else SequenceContainsNoElementsError when empty by the has_result "
           "flag, else the last element)")
    ok = any(isinstance(s.node, ast.Assign) and cell_name(s.node.targets[0]) == result and u(s.node.value) == rn.params[0] and not s.ctx.branch for s in sites(rn)) \
        and any(isinstance(s.node, ast.Assign) and cell_name(s.node.targets[0]) == has_result and u(s.node.value) == "True" and not s.ctx.branch for s in sites(rn))
    rep.ob("T3-blocking-result", rn, "run.on_next records result and has_result unconditionally", ok, "run() does not record every element as the last value")
    # the recorded error decides by identity, never by truthiness: an exception object may be falsy (__len__ / __bool__)
    for s in sites(run):
        if isinstance(s.node, (ast.If, ast.While, ast.IfExp, ast.Assert)):
            from ..astutil import atoms
            from ..rules import effective_test
            for e, _pol in atoms(effective_test(run, s.node.test), True):
                for x in (e.values if isinstance(e, ast.BoolOp) else [e]):
                    while isinstance(x, ast.UnaryOp) and isinstance(x.op, ast.Not):
                        x = x.operand
                    if isinstance(x, (ast.Name, ast.Subscript)) and cell_name(x) == exception:
                        rep.ob("T3-blocking-result", run, "run(): recorded error tested by truthiness", False,
                               "run() decides whether the sequence failed by the truthiness of the exception object: a falsy exception "
                               "(an exception class defining __len__ / __bool__) is not raised -- run() returns the last element or "
                               "raises SequenceContainsNoElementsError instead of the sequence's error")
                    elif isinstance(x, ast.Compare) and uc(x.left) == exception and isinstance(x.ops[0], (ast.Is, ast.IsNot)):
                        rep.ob("T3-blocking-result", run, f"run(): `{short(x, 40)}`", True)
    waits = [s for s in sites(run) if isinstance(s.node, ast.Call) and dotted(s.node.func) == f"{latch}.wait"]
    for nm in ("on_error", "on_completed"):
        g = repo.fn(RUN, f"run.{nm}")
        sets = any(isinstance(s.node, ast.Call) and dotted(s.node.func) == f"{latch}.set" and not s.ctx.branch for s in sites(g))
        # the flag(s) the waiting loop tests must be set by the handler before the latch is released
        loop_flags = {cell_name(e) for w in waits for e, p_ in w.ctx.guards if not p_ and cell_name(e)}
        done_ok = all(fl in names_assigned_const(g, True) for fl in loop_flags)
        ok = sets and done_ok and (nm != "on_error" or len(exc_v) == 1)
        if nm == "on_error" and len(exc_v) == 1:
            # publication order: the outcome is stored before the flag the (lock-free) waiting loop tests is raised
            store = [s for s in sites(g) if isinstance(s.node, ast.Assign) and cell_name(s.node.targets[0]) == exception]
            flags = [s for s in sites(g) if isinstance(s.node, ast.Assign) and cell_name(s.node.targets[0]) in loop_flags and u(s.node.value) == "True"]
            rel = [s for s in sites(g) if isinstance(s.node, ast.Call) and dotted(s.node.func) == f"{latch}.set"]
            ok = ok and bool(store) and all(store[0].index < f_.index for f_ in flags + rel)
        rep.ob("T3-blocking-result", g, f"run.{nm} records the outcome and releases the waiter", ok, f"run.{nm} does not wake the blocked caller")
