"""C42 — CatchScheduler routes action exceptions to its handler (S2)."""
from __future__ import annotations

import ast
from typing import Optional

from ..astutil import call_name, dotted, short, u
from ..core import Report
from ..ctx import paths, sites, dominates
from ..engines.callguard import handler_catches_exception
from ..frontend import Repo
from ..rules import has_guard

C = "reactivex/scheduler/catchscheduler.py"


from ..astutil import arg_of, compare_parts, compare_parts as compare_parts_  # noqa: E402


def handler_analysis(rep: Report, fn, handler_call_prefix: str, what: str, extra_swallow=None) -> None:
    """In fn: the user action is called inside a try catching Exception; the handler calls the user handler with the
    caught exception, re-raises iff it returned falsy, swallows otherwise."""
    tries = [s.node for s in sites(fn) if isinstance(s.node, ast.Try)]
    rep.ob("H1-handler-semantics", fn, f"{what}: action inside try/except Exception",
           bool(tries) and any(handler_catches_exception(h) for t in tries for h in t.handlers),
           f"{what}: the action is not called inside a handler that catches Exception: its exception bypasses the catch handler")
    for t in tries:
        for h in t.handlers:
            if not handler_catches_exception(h):
                continue
            calls = [n for n in ast.walk(h) if isinstance(n, ast.Call) and (dotted(n.func) or "").endswith(handler_call_prefix)]
            ok = len(calls) == 1 and calls[0].args and isinstance(calls[0].args[0], ast.Name) and calls[0].args[0].id == h.name
            rep.ob("H1-handler-semantics", fn, f"{what}: handler(ex) called once with the caught exception", ok,
                   f"{what}: the caught exception is not passed (exactly once) to the user's handler")
            from ..ctx import _Walker, Ctx
            wk = _Walker(fn)
            wk.block(h.body, Ctx())
            raises = [x for x in wk.out if isinstance(x.node, ast.Raise)]
            ok = bool(raises) and all(any(isinstance(e, ast.Call) and (dotted(e.func) or "").endswith(handler_call_prefix) and not p
                                          for e, p in r.ctx.guards) for r in raises) and all(r.node.exc is None for r in raises)
            rep.ob("H1-handler-semantics", fn, f"{what}: re-raise iff the handler returned falsy", ok,
                   f"{what}: the exception is not re-raised exactly when the handler returns a falsy value (it is always "
                   f"swallowed, always propagated, or replaced)")
            # the swallow path falls through to a normal return
            fall = [x for x in wk.out if isinstance(x.node, ast.Return)]
            rep.ob("H1-handler-semantics", fn, f"{what}: swallowed exception ends the action normally", bool(fall),
                   f"{what}: after a handled exception the wrapper does not return normally")


def check(repo: Repo, rep: Report) -> None:
    rep.explanation = (
        "CatchScheduler structure: every schedule* method hands `self._wrap(action)` — never the raw action — to the "
        "wrapped scheduler, forwarding the other arguments in their roles; wrapped_action calls the action inside try/"
        "except Exception with the scheduler argument replaced by _get_recursive_wrapper(...) (so scheduling done by the "
        "action itself is wrapped too), passes the caught exception to the handler, re-raises iff the handler returned "
        "falsy and otherwise ends normally; schedule_periodic does the same per tick, latches `failed` before consulting "
        "the handler so that later ticks do nothing, and disposes the periodic subscription on the swallow path; the "
        "recursive wrapper is a CatchScheduler with the same handler.")
    rep.assumptions += ["the wrapped scheduler runs the action it is given"]
    rep.rule("W1-wrap-coverage", "schedule/schedule_relative/schedule_absolute pass self._wrap(action) and forward the other arguments", floor=6)
    rep.rule("H1-handler-semantics", "try/except Exception around the action; handler(ex); re-raise iff falsy; swallow otherwise", floor=8)
    rep.rule("R1-recursive", "the scheduler handed to the action is the recursive CatchScheduler wrapper with the same handler", floor=3)
    rep.rule("R2-cache-key", "the cached recursive wrapper is rebuilt when absent and when the inner scheduler differs from its key", floor=3)
    rep.rule("P1-periodic", "periodic: failed latch dominates later ticks and is set before the handler runs; swallow disposes the periodic subscription", floor=4)
    cls = repo.fn(C, "CatchScheduler")
    # roles of the instance attributes, by how __init__ fills them (never by their names): the wrapped scheduler and the
    # user's handler are the attributes initialised from the 1st / 2nd constructor parameter
    from ..rules import self_attr_stores_from_params
    init = repo.fn(C, "CatchScheduler.__init__")
    byp = self_attr_stores_from_params(init)
    ip = [p_ for p_ in init.params if p_ != "self"]
    A_S = next((a for a, ps in byp.items() if ip and ps == {ip[0]}), "?wrapped-scheduler")
    A_H = next((a for a, ps in byp.items() if len(ip) > 1 and ps == {ip[1]}), "?handler")
    INNER, HND = f"self.{A_S}", f".{A_H}"
    for mname, fwd in (("schedule", []), ("schedule_relative", ["duetime"]), ("schedule_absolute", ["duetime"])):
        m = repo.fn(C, f"CatchScheduler.{mname}")
        wraps = [s for s in sites(m) if isinstance(s.node, ast.Assign) and u(s.node.value) == "self._wrap(action)"]
        wname = u(wraps[0].node.targets[0]) if wraps else None
        calls = [s for s in sites(m) if isinstance(s.node, ast.Call) and dotted(s.node.func) == f"{INNER}.{mname}"]
        ok = len(calls) == 1 and bool(wraps)
        if ok:
            c = calls[0].node
            args = [u(a) for a in c.args]
            kw = {k.arg: u(k.value) for k in c.keywords}
            ok = args in (fwd + [wname, "state"], fwd + [wname]) and (len(args) == len(fwd) + 2 or kw.get("state") == "state") \
                and dominates(wraps[0], calls[0])
            if wname == "action":
                pass
            # a direct inline form self._scheduler.schedule(self._wrap(action), ...) is fine as well
        if not ok and len(calls) == 1:
            c = calls[0].node
            args = [u(a) for a in c.args]
            kw = {k.arg: u(k.value) for k in c.keywords}
            ok = args == fwd + ["self._wrap(action)", "state"] or (args == fwd + ["self._wrap(action)"] and kw.get("state") == "state")
        rep.ob("W1-wrap-coverage", m, f"{mname}: wrapped scheduler receives the wrapped action", ok,
               f"CatchScheduler.{mname} hands the raw action (or mis-forwarded arguments) to the wrapped scheduler: its "
               f"exceptions never reach the handler")
        rets = [s for s in sites(m) if isinstance(s.node, ast.Return)]
        rep.ob("W1-wrap-coverage", m, f"{mname}: returns the wrapped scheduler's disposable",
               bool(rets) and all(isinstance(r.node.value, ast.Call) and dotted(r.node.value.func) == f"{INNER}.{mname}" for r in rets),
               f"CatchScheduler.{mname} does not return the disposable of the underlying scheduling (cancellation lost)")
    wa = repo.fn(C, "CatchScheduler._wrap.wrapped_action")
    handler_analysis(rep, wa, HND, "wrapped_action")
    acts = [s for s in sites(wa) if isinstance(s.node, ast.Call) and isinstance(s.node.func, ast.Name) and s.node.func.id == "action"]
    ok = len(acts) == 1 and isinstance(acts[0].node.args[0], ast.Call) and (dotted(acts[0].node.args[0].func) or "").endswith("._get_recursive_wrapper") \
        and len(acts[0].node.args) == 2 and u(acts[0].node.args[1]) == wa.params[1] and bool(acts[0].ctx.tries)
    rep.ob("R1-recursive", wa, "action(<recursive wrapper>, state) inside the try", ok,
           "the action is given the raw scheduler (recursive scheduling escapes the handler), a different state, or is called outside the try")
    wrap = repo.fn(C, "CatchScheduler._wrap")
    rep.ob("R1-recursive", wrap, "returns wrapped_action", any(isinstance(s.node, ast.Return) and u(s.node.value) == "wrapped_action" for s in sites(wrap)),
           "_wrap does not return the guarding wrapper")
    cl = repo.fn(C, "CatchScheduler._clone")
    ok = any(isinstance(s.node, ast.Return) and u(s.node.value) == f"CatchScheduler({cl.params[1]}, self{HND})" for s in sites(cl))
    rep.ob("R1-recursive", cl, "_clone keeps the handler", ok, "the recursive wrapper does not use the same handler")
    grw = repo.fn(C, "CatchScheduler._get_recursive_wrapper")
    # the cache attribute is what _get_recursive_wrapper returns; its key is the attribute the parameter is recorded in
    rv = [s.node.value for s in sites(grw) if isinstance(s.node, ast.Return) and isinstance(s.node.value, ast.Attribute) and u(s.node.value.value) == "self"]
    A_W = rv[0].attr if rv else "?wrapper-cache"
    kk = [s.node.targets[0].attr for s in sites(grw) if isinstance(s.node, ast.Assign) and isinstance(s.node.targets[0], ast.Attribute)
          and u(s.node.targets[0].value) == "self" and u(s.node.value) == grw.params[1]]
    A_K = kk[0] if kk else next((cp_[0][5:] if cp_[0].startswith("self.") else cp_[2][5:] for e_ in ast.walk(grw.node) if isinstance(e_, ast.Compare)
                                 for cp_ in [compare_parts_(e_)] if cp_ and grw.params[1] in (cp_[0], cp_[2]) and (cp_[0] + cp_[2]).count("self.") == 1), "?wrapper-key")
    ok = any(isinstance(s.node, ast.Assign) and u(s.node.value) == f"self._clone({grw.params[1]})" for s in sites(grw)) and \
        len(rv) == len([s for s in sites(grw) if isinstance(s.node, ast.Return)]) and bool(rv)
    rep.ob("R1-recursive", grw, "wrapper built by _clone(scheduler)", ok, "the recursive wrapper is not a CatchScheduler clone over the inner scheduler")
    clones = {u(s.node.targets[0]) for s in sites(grw) if isinstance(s.node, ast.Assign) and u(s.node.value) == f"self._clone({grw.params[1]})"}
    for s in sites(grw):
        if isinstance(s.node, ast.Assign) and isinstance(s.node.targets[0], ast.Attribute) and s.node.targets[0].attr == A_W:
            rep.ob("R1-recursive", grw, f"`{short(s.node)}` stores a CatchScheduler clone", u(s.node.value) in clones,
                   f"`{short(s.node)}` stores something that is not the catching clone as a recursive wrapper: actions scheduled from deeper "
                   f"recursion levels receive the raw scheduler and their exceptions bypass the handler")
    # the cached wrapper is keyed by the scheduler it wraps: it is rebuilt whenever there is none yet AND whenever the
    # scheduler handed to the action is not the one it was built over (thread schedulers hand out a fresh one per action)
    from ..rules import guards_hold_when
    par = grw.params[1]

    def leaf(stale, missing):
        def val(e):
            cp = compare_parts(e)
            if cp:
                l_, op, r_ = cp
                if {l_, r_} == {f"self.{A_K}", par}:
                    return stale if op in ("!=", "is not") else (None if stale is None else not stale) if op in ("==", "is") else None
                if l_ == f"self.{A_W}" and r_ == "None":
                    return missing if op in ("is", "==") else (None if missing is None else not missing) if op in ("is not", "!=") else None
                return None
            if u(e) == f"self.{A_W}":
                return None if missing is None else not missing
            return None
        return val
    stores = [s for s in sites(grw) if isinstance(s.node, ast.Assign) and u(s.node.targets[0]) == f"self.{A_W}"]
    for s in stores:
        rep.ob("R2-cache-key", grw, f"`{short(s.node)}` runs whenever the wrapped scheduler changed",
               guards_hold_when(grw, s.ctx, leaf(True, None)),
               f"the cached recursive wrapper is not rebuilt when `{par}` differs from the scheduler it was built over: an action "
               f"run by a different inner scheduler (a new thread per action) schedules its recursive work on the stale one")
        rep.ob("R2-cache-key", grw, f"`{short(s.node)}` runs whenever no wrapper exists yet",
               guards_hold_when(grw, s.ctx, leaf(None, True)),
               "no recursive wrapper is built on first use: the action receives None as its scheduler")
        keys = [k for k in sites(grw) if isinstance(k.node, ast.Assign) and u(k.node.targets[0]) == f"self.{A_K}"
                and u(k.node.value) == par and k.ctx.guards == s.ctx.guards]
        rep.ob("R2-cache-key", grw, "the key is recorded with the wrapper", bool(keys),
               f"the rebuilt wrapper is not recorded against `{par}`: the cache never matches (or matches the wrong scheduler)")
    if not stores:
        rep.ob("R2-cache-key", grw, "the recursive wrapper is cached", False, "no store of the recursive wrapper cache")
    # periodic
    per = repo.fn(C, "CatchScheduler.schedule_periodic.periodic")
    sp = repo.fn(C, "CatchScheduler.schedule_periodic")
    handler_analysis(rep, per, HND, "periodic tick")
    # roles: the failed latch is the schedule_periodic local initialised False that the tick sets True; the periodic
    # subscription is the SingleAssignmentDisposable local that schedule_periodic returns
    from ..rules import locals_by_init, names_assigned_const, cell_name as _cellname
    latches = [f_ for f_ in locals_by_init(sp, lambda v: isinstance(v, ast.Constant) and v.value is False) if f_ in names_assigned_const(per, True)]
    failed = latches[0] if len(latches) == 1 else "?failed-latch"
    disps = [d for d in locals_by_init(sp, lambda v: isinstance(v, ast.Call) and call_name(v) in ("SingleAssignmentDisposable", "SerialDisposable", "MultipleAssignmentDisposable"))
             if any(isinstance(s.node, ast.Return) and u(s.node.value) == d for s in sites(sp))]
    disp = disps[0] if len(disps) == 1 else "?periodic-subscription"
    acts = [s for s in sites(per) if isinstance(s.node, ast.Call) and isinstance(s.node.func, ast.Name) and s.node.func.id == "action"]
    ok = len(acts) == 1 and has_guard(acts[0].ctx, failed, False) and [u(a) for a in acts[0].node.args] == [per.params[0]]
    rep.ob("P1-periodic", per, "action(state) dominated by `not failed`", ok,
           "a periodic tick runs the action after a previous tick failed (or with a different state)")
    hs = [h for s in sites(per) if isinstance(s.node, ast.Try) for h in s.node.handlers]
    ok = False
    disp_ok = False
    for h in hs:
        sets = [n for n in h.body if isinstance(n, ast.Assign) and _cellname(n.targets[0]) == failed and u(n.value) == "True"]
        first_call = next((i for i, n in enumerate(h.body) if any(isinstance(x, ast.Call) and (dotted(x.func) or "").endswith(HND) for x in ast.walk(n))), None)
        if sets and first_call is not None and h.body.index(sets[0]) < first_call:
            ok = True
        disp_ok = any(isinstance(x, ast.Call) and dotted(x.func) == f"{disp}.dispose" for x in ast.walk(h))
    rep.ob("P1-periodic", per, "failed = True before the handler is consulted", ok,
           "the failed latch is not set before the handler runs: if the handler raises or swallows, later ticks still run the action")
    rep.ob("P1-periodic", per, "swallow path disposes the periodic subscription", disp_ok,
           "after a handled exception the periodic work is not stopped")
    inner_names = {INNER} | {u(s.node.targets[0]) for s in sites(sp) if isinstance(s.node, ast.Assign) and INNER in u(s.node.value)
                                         and isinstance(s.node.targets[0], ast.Name)}
    calls = [s for s in sites(sp) if isinstance(s.node, ast.Call) and isinstance(s.node.func, ast.Attribute) and s.node.func.attr == "schedule_periodic"
             and dotted(s.node.func.value) in inner_names]
    ok = len(calls) == 1 and [u(a) for a in calls[0].node.args][:2] == [sp.params[1], "periodic"] and \
        u(arg_of(calls[0].node, 2, "state")) == "state" and \
        isinstance(calls[0].stmt, ast.Assign) and u(calls[0].stmt.targets[0]) == f"{disp}.disposable"
    rep.ob("P1-periodic", sp, "disp.disposable = inner.schedule_periodic(period, periodic, state=state)", ok,
           "the guarded tick function (or period / state) is not what is scheduled periodically, or its subscription is not held")
