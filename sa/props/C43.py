"""C43 — combinators serialize concurrently emitting sources (S2)."""
from __future__ import annotations

import ast
from typing import Dict, List, Optional, Set, Tuple

from ..astutil import call_name, dotted, short, u
from ..core import Report
from ..ctx import sites, Site
from ..frontend import Fn, Repo
from ..model import (Target, is_schedule_call, is_subscribe_call, model_of, resolve_callable,
                     schedule_action_arg, subscribe_slots)

# (module, dotted path of the subscribe function)
COMBINATORS = [
    ("reactivex/operators/_merge.py", "merge_.subscribe"),
    ("reactivex/operators/_merge.py", "merge_all_.subscribe"),
    ("reactivex/observable/zip.py", "zip_.subscribe"),
    ("reactivex/observable/combinelatest.py", "combine_latest_.subscribe"),
    ("reactivex/observable/withlatestfrom.py", "with_latest_from_.subscribe"),
    ("reactivex/operators/_amb.py", "amb_.subscribe"),
    ("reactivex/operators/_windowwithtime.py", "window_with_time_.subscribe"),
    ("reactivex/operators/_windowwithtimeorcount.py", "window_with_time_or_count_.subscribe"),
]
DOWN = ("on_next", "on_error", "on_completed")
# unlocked stores present in the pinned tree that are outside what C43 states (downstream mutual exclusion + grammar),
# confirmed by reading; kept visible in the evidence, not armed.  See DESIGN.md "observations".
UNLOCKED_STORES_OBSERVED = {
    # the outer handler of merge(max_concurrent) bumps the active-inner counter without the lock
    ("reactivex/operators/_merge.py", "merge_.subscribe.on_next", "AugAssign"),
}


class Coverage:
    def __init__(self, root: Fn):
        self.root = root
        self.obs = root.params[0]
        self.tree = [g for g in root.walk() if g.is_func]

    def is_downstream(self, g: Fn, n: ast.AST) -> Optional[str]:
        if isinstance(n, ast.Call) and isinstance(n.func, ast.Attribute) and n.func.attr in DOWN \
                and isinstance(n.func.value, ast.Name) and n.func.value.id == self.obs and g.owner(self.obs) is self.root:
            return n.func.attr
        return None

    def calls_from(self, g: Fn, held: Tuple[str, ...], seen: Set[int], gates: Tuple[str, ...]) -> List[Tuple[Fn, Site, Tuple[str, ...], Tuple[str, ...]]]:
        """Downstream call sites reachable from executing g with `held` locks: (fn, site, locks, gate-guards)."""
        key = (id(g), held)
        if key in seen:
            return []
        seen.add(key)
        out = []
        for s in sites(g):
            n = s.node
            locks = tuple(held) + tuple(s.ctx.locks)
            k = self.is_downstream(g, n)
            if k:
                out.append((g, s, locks, gates + tuple(u(e) for e, p in s.ctx.guards if p)))
                continue
            if isinstance(n, ast.Call) and isinstance(n.func, ast.Name):
                h = g.resolve_local_def(n.func.id)
                if h is not None and h.is_func and h in self.tree:
                    out += self.calls_from(h, locks, seen, gates + tuple(u(e) for e, p in s.ctx.guards if p))
                    continue
                # alias of a wrapped / bound downstream method called as a function
                t = resolve_callable(g, n.func)
                out += self.target_calls(t, g, s, locks, seen, gates)
        return out

    def shared(self, g: Fn, name: str, sub_fn: Fn) -> bool:
        """name denotes state shared between the sources: owned by the function that makes the subscription (or an
        ancestor of it) inside this combinator -- not by the handler that runs."""
        o = g.owner(name)
        if o is None or not o.is_func or o not in self.tree:
            return False
        h = sub_fn
        while h is not None:
            if h is o:
                return True
            if h is self.root:
                break
            h = h.parent
        return False

    def stores_from(self, g: Fn, held: Tuple[str, ...], seen: Set, sub_fn: Fn):
        """Stores (assignment / augmented assignment / del) into shared state reachable from executing g: (fn, site, locks)."""
        from ..rules import cell_name
        key = (id(g), held)
        if key in seen:
            return []
        seen.add(key)
        out = []
        for s in sites(g):
            n = s.node
            locks = tuple(held) + tuple(s.ctx.locks)
            tgts = []
            if isinstance(n, ast.Assign):
                tgts = n.targets
            elif isinstance(n, ast.AugAssign):
                tgts = [n.target]
            elif isinstance(n, ast.Delete):
                tgts = n.targets
            for t in tgts:
                b = t
                while isinstance(b, ast.Subscript):
                    b = b.value
                if isinstance(b, ast.Name) and g.owner(b.id) is not g and self.shared(g, b.id, sub_fn):
                    out.append((g, s, locks, b.id))
            if isinstance(n, ast.Call) and isinstance(n.func, ast.Name):
                h = g.resolve_local_def(n.func.id)
                if h is not None and h.is_func and h in self.tree:
                    out += self.stores_from(h, locks, seen, sub_fn)
                else:
                    t = resolve_callable(g, n.func)
                    hl = locks
                    while t.kind == "sync" and t.inner is not None:
                        hl = hl + (t.lock,)
                        t = t.inner
                    if t.kind == "fn" and t.fn in self.tree:
                        out += self.stores_from(t.fn, hl, seen, sub_fn)
        return out

    def target_calls(self, t: Target, g: Fn, s: Site, held: Tuple[str, ...], seen: Set[int], gates=()):
        """Downstream calls made when the callable denoted by t is invoked."""
        if t.kind == "sync":
            return self.target_calls(t.inner, g, s, held + (t.lock,), seen, gates) if t.inner else []
        if t.kind == "bound":
            if t.obj == self.obs and t.attr in DOWN and g.owner(self.obs) is self.root:
                return [(g, s, held, gates)]
            return []
        if t.kind == "fn" and t.fn in self.tree:
            return self.calls_from(t.fn, held, seen, gates)
        return []


def winner_gate_ok(root: Fn, g: Fn, s: Site) -> Tuple[bool, str]:
    """amb idiom: the downstream call is dominated by `flag == <const side>`; every write of the flag is under a lock,
    guarded by `not flag` (assigned at most once), so only one source's handlers can pass."""
    for e, p in s.ctx.guards:
        if not (p and isinstance(e, ast.Compare) and len(e.ops) == 1 and isinstance(e.ops[0], ast.Eq)):
            continue
        flag = e.left
        ft = u(flag)
        base = flag.value if isinstance(flag, ast.Subscript) else flag
        if not isinstance(base, ast.Name):
            continue
        writes = []
        for h in root.walk():
            if not h.is_func:
                continue
            for w in sites(h):
                n = w.node
                if isinstance(n, ast.Assign) and any(u(t) == ft for t in n.targets) and h.owner(base.id) is g.owner(base.id):
                    writes.append((h, w))
        if not writes:
            continue
        ok = True
        for h, w in writes:
            once = any(u(ge) == ft and not gp for ge, gp in w.ctx.guards)
            # the helper performing the write must only be called with a lock held
            locked = bool(w.ctx.locks)
            if not locked:
                callers = []
                for k in root.walk():
                    if k.is_func:
                        for c in sites(k):
                            if isinstance(c.node, ast.Call) and isinstance(c.node.func, ast.Name) \
                                    and k.resolve_local_def(c.node.func.id) is h:
                                callers.append(c)
                locked = bool(callers) and all(c.ctx.locks for c in callers)
            ok = ok and once and locked
        if ok:
            return True, ft
    return False, ""


def check(repo: Repo, rep: Report) -> None:
    rep.explanation = (
        "Downstream lock coverage: for each listed combinator every slot of every `.subscribe(` made inside its "
        "subscribe function (code that a *different source thread* may run) and every scheduled timer action is "
        "followed through local helpers, lambdas, bound methods and synchronized(lock)(...) wrappers to the calls it can "
        "make on the downstream observer; each such call must be made while holding the combinator's one lock (with / "
        "@synchronized / wrapper / helper only called under it), the same lock for all slots, or be dominated by a "
        "winner flag that is assigned once under the lock (amb). A bare `observer.on_error` handed over as a slot is an "
        "uncovered downstream call. Mutual exclusion of all downstream calls is the discipline that gives 'never from two "
        "threads at once' for every interleaving.")
    rep.assumptions += ["each source emits serially from its own thread (as the property states)",
                        "threading.RLock semantics; the downstream grammar under serialized calls is C01/C11-C13"]
    rep.rule("K1-downstream-covered", "every downstream call reachable from a source slot / timer action is made under the "
                                      "combinator's lock or behind a winner gate", floor=25)
    rep.rule("K2-one-lock", "all covered calls of one combinator use the same lock expression", floor=7)
    rep.rule("K3-delegates", "flat_map* / merge (creation) delegate to merge_all / merge", floor=3)
    rep.rule("K4-shared-stores-locked", "stores into state shared between the sources, made by code a source thread runs, happen under the "
                                        "combinator's lock (the value combined downstream is the one serialized with the emission)", floor=12)
    m = model_of(repo)
    rep.rule("K5-one-lock-object", "the lock the combinators serialize on is one object per observable, allocated in Observable.__init__", floor=1)
    oinit = repo.fn("reactivex/observable/observable.py", "Observable.__init__")
    ocls = repo.fn("reactivex/observable/observable.py", "Observable")
    eager = any(isinstance(s.node, ast.Assign) and u(s.node.targets[0]) == "self.lock" and isinstance(s.node.value, ast.Call)
                and call_name(s.node.value) == "RLock" and not s.ctx.branch for s in sites(oinit))
    lazy = ocls.child("lock") is not None
    rep.ob("K5-one-lock-object", oinit, "Observable.__init__: self.lock = threading.RLock() (re-entrant; no lazy `lock` property)", eager and not lazy,
           "`source.lock` is not one re-entrant lock allocated in Observable.__init__: a lazy / cached property gives two source threads that "
           "reach it first their own lock objects; a plain Lock deadlocks the combinators, which call downstream while holding it, as soon as "
           "the subscriber feeds one of the sources from inside its callback")
    for rel, path in COMBINATORS:
        root = repo.fn(rel, path)
        cov = Coverage(root)
        entries: List[Tuple[str, Fn, Site, Target]] = []
        for g in cov.tree:
            for s in sites(g):
                n = s.node
                if is_subscribe_call(n):
                    for slot, a in subscribe_slots(n).items():
                        if a is None:
                            continue
                        entries.append((f"{short(n.func, 30)}:{slot}", g, s, resolve_callable(g, a)))
                elif is_schedule_call(n):
                    a = schedule_action_arg(n)
                    entries.append((f"{short(n.func, 30)}:action", g, s, resolve_callable(g, a)))
        rep.require(entries, f"subscribe slots in {root.ref}")
        locks_used: Dict[str, int] = {}
        n_calls = 0
        for label, g, s, t in entries:
            if t.kind == "unknown":
                # e.g. a whole observer object passed on: all three methods
                if isinstance(t.expr, ast.Name) and t.expr.id == cov.obs:
                    rep.ob("K1-downstream-covered", g, f"{label}: raw downstream observer", False,
                           "the downstream observer itself is subscribed to a source: its calls are not serialized with the "
                           "other sources")
                continue
            for (h, cs, locks, gates) in cov.target_calls(t, g, s, tuple(s.ctx.locks) if t.kind != "fn" else (), set()):
                n_calls += 1
                what = short(cs.node, 50) if cs is not s else f"{t.describe()} (passed as slot)"
                c = f"{label} -> {h.qual.split('.', 1)[-1]}: {what}"
                if locks:
                    for l in set(locks):
                        locks_used[l] = locks_used.get(l, 0) + 1
                    rep.ob("K1-downstream-covered", root, c, True)
                else:
                    ok, flag = winner_gate_ok(root, h, cs) if cs is not s else (False, "")
                    rep.ob("K1-downstream-covered", root, c, ok,
                           f"`{what}` can be executed by the thread of the source subscribed at `{label}` without holding "
                           f"the combinator's lock (and without a winner gate): it can run concurrently with a downstream "
                           f"call made by another source's thread")
        seen_w = set()
        for label, g, s, t in entries:
            hl = tuple(s.ctx.locks) if t.kind != "fn" else ()
            t2 = t
            while t2.kind == "sync" and t2.inner is not None:
                hl = hl + (t2.lock,)
                t2 = t2.inner
            if t2.kind != "fn" or t2.fn not in cov.tree:
                continue
            for (h, ws, locks, name) in cov.stores_from(t2.fn, hl, set(), g):
                k_ = (h.qual, u(ws.node))
                if k_ in seen_w:
                    continue
                seen_w.add(k_)
                c = f"{h.qual.split('.', 1)[-1]}: `{short(ws.node, 50)}`"
                if (rel, h.qual, type(ws.node).__name__) in UNLOCKED_STORES_OBSERVED:
                    rep.ob("K4-shared-stores-locked", root, c + " (observed, see DESIGN.md)", True, nontrivial=False)
                    continue
                rep.ob("K4-shared-stores-locked", root, c, bool(locks),
                       f"{h.qual} stores into `{name}`, state shared by all sources of {root.qual.split('.')[0]}, without holding the "
                       f"combinator's lock: another source's thread running its (locked) emission in between combines / tests a "
                       f"value whose own emission has not been serialized yet -- tuples are lost or duplicated, completion tests "
                       f"see a half-updated state")
        rep.require(n_calls >= 2, f"downstream calls reachable from slots in {root.ref} ({n_calls})")
        # every critical section of the combinator — also those that only protect the winner choice / shared state — is on ONE lock
        all_locks = set()
        for g_ in root.walk():
            if not g_.is_func:
                continue
            for n_ in g_.direct_nodes():
                if isinstance(n_, ast.With):
                    for it in n_.items:
                        if u(it.context_expr).endswith("lock"):
                            all_locks.add(u(it.context_expr))
            for d_ in getattr(g_.node, "decorator_list", []):
                if isinstance(d_, ast.Call) and call_name(d_) == "synchronized" and d_.args:
                    all_locks.add(u(d_.args[0]))
            for n_ in g_.direct_nodes():
                if isinstance(n_, ast.Call) and call_name(n_) == "synchronized" and n_.args:
                    all_locks.add(u(n_.args[0]))
        rep.ob("K2-one-lock", root, f"critical sections of {root.qual.split('.')[0]}: {sorted(all_locks)}", len(all_locks) <= 1,
               f"{root.qual} takes different locks in different critical sections ({sorted(all_locks)}): two source threads do not exclude each other "
               f"(both can be chosen as the winner / both update the shared state)")
        rep.ob("K2-one-lock", root, f"locks: {sorted(locks_used)}", len(locks_used) <= 1,
               f"different slots of {root.qual} serialize on different locks {sorted(locks_used)}: they do not exclude each other")
    # K6: the windows a window operator feeds are part of its downstream: a window's observer is entered by the source thread
    # (elements) and by the timer thread (rotation / completion), so those calls are serialized by the same lock
    rep.rule("K6-windows-covered", "window operators: every call on a window subject made by a source slot / timer action is under the operator's lock", floor=8)
    for rel, path in COMBINATORS:
        if "window" not in path:
            continue
        root = repo.fn(rel, path)
        for g in root.walk():
            if not g.is_func or g is root:
                continue
            for s_ in sites(g):
                n_ = s_.node
                if isinstance(n_, ast.Call) and isinstance(n_.func, ast.Attribute) and n_.func.attr in ("on_next", "on_error", "on_completed") \
                        and u(n_.func.value) != root.params[0]:
                    rep.ob("K6-windows-covered", g, f"{g.qual.split('.', 1)[-1]}: `{short(n_, 40)}` under {list(s_.ctx.locks) or 'no lock'}", bool(s_.ctx.locks),
                           f"`{short(n_, 40)}` reaches a window's observer without the operator's lock: the timer thread can complete / rotate that "
                           f"window while the source thread is still inside its on_next — the window observer is entered from two threads at once")
    # K3 delegations
    fm = repo.module("reactivex/operators/_flatmap.py")
    for f in fm.root.children:
        if f.is_func and f.name.startswith("flat_map") and not f.name.endswith("latest_"):
            txt = {call_name(n) for n in f.all_nodes() if isinstance(n, ast.Call)}
            for hn in list(txt):
                h = fm.root.child(hn) if hn else None
                if h is not None and h.is_func:
                    txt |= {call_name(n) for n in h.all_nodes() if isinstance(n, ast.Call)}
            rep.ob("K3-delegates", f, f"{f.name} -> merge_all", "merge_all" in txt,
                   f"{f.name} no longer delegates the merging to merge_all (its serialization is not covered)")
    mg = repo.fn("reactivex/observable/merge.py", "merge_")
    txt = {call_name(n) for n in mg.all_nodes() if isinstance(n, ast.Call)}
    rep.ob("K3-delegates", mg, "merge_ -> merge_all", "merge_all" in txt, "reactivex.merge no longer delegates to merge_all")
