"""C44 — an operator function can be applied to many sources independently (S3)."""
from __future__ import annotations

import ast

from ..astutil import call_name, short, u
from ..core import Report
from ..engines.staging import Staging
from ..frontend import Repo
from ..model import model_of

RX_STATEFUL = {"Subject", "BehaviorSubject", "ReplaySubject", "AsyncSubject", "ConnectableObservable",
               "CompositeDisposable", "SerialDisposable", "SingleAssignmentDisposable",
               "MultipleAssignmentDisposable", "RefCountDisposable", "BooleanDisposable"}
CURRY = "reactivex/internal/curry.py"


def check(repo: Repo, rep: Report) -> None:
    rep.explanation = (
        "E1 staging at the factory/application boundary: for every operator factory (module-level function of "
        "reactivex/operators that is not @curry_flip) no binding created in the factory body (L0) is mutated or "
        "consumed by code that runs per application or later (>= L1), and no Subject / connectable / disposable "
        "container is constructed at L0 and captured or passed on; @curry_flip operators run their whole body per "
        "application, and curry_flip itself is checked to keep no state between the two calls.")
    rep.assumptions += ["state inside user-supplied objects (a subject passed to ops.multicast) is the user's"]
    rep.rule("E1-L0-state", "no L0 binding of an operator factory is mutated / consumed at stage >= L1", floor=100)
    rep.rule("E1-L0-rx-object", "no Subject-family / ConnectableObservable / disposable container is constructed in an "
                                "operator factory body (L0)", floor=20)
    rep.rule("E1-curry-stateless", "curry_flip closes only over its arguments: no nonlocal, no mutable allocation, no "
                                   "attribute store", floor=3)
    m = model_of(repo)
    st = Staging(repo, m)
    n_fact = 0
    for mod in repo.modules.values():
        if not (mod.rel.startswith("reactivex/operators/") or mod.rel == "reactivex/pipe.py"):
            continue
        for S in mod.root.children:
            if not S.is_func:
                continue
            if mod.rel == "reactivex/pipe.py" and (S.name != "compose" or S.has_decorator("overload")):
                continue        # compose(...) is the operator factory every composite operator (and user code) is built with
            if m.stage.get(S, 0) != 0:
                # curry_flip operator: whole body is per application
                rep.ob("E1-L0-state", S, "@curry_flip: body runs per application", True, nontrivial=False)
                continue
            n_fact += 1
            findings, nb = st.analyse_scope(S, 1)
            seen = set()
            for f in findings:
                if f.construct in seen:
                    continue
                seen.add(f.construct)
                rep.ob("E1-L0-state", S, f.construct, False,
                       f"`{f.name}` ({f.alloc}) lives in the operator factory {S.qual} (one per ops.xxx(...) call) but is "
                       f"{f.how} at stage L{f.use_stage} in {f.user.qual}: applying the same operator object to two "
                       f"sources shares it")
            rep.ob("E1-L0-state", S, f"{nb} L0 bindings of {S.qual}", True, nontrivial=nb > 0)
            n_ctor = 0
            for n in S.direct_nodes():
                makes = isinstance(n, ast.Call) and isinstance(n.func, ast.Name) and n.func.id in RX_STATEFUL
                if not makes and isinstance(n, ast.Call) and isinstance(n.func, ast.Name):
                    # a call, made in the factory body, of a local helper that returns a freshly constructed stateful object
                    h = S.resolve_local_def(n.func.id)
                    if h is not None and h.is_func and any(isinstance(x, ast.Return) and isinstance(x.value, ast.Call) and isinstance(x.value.func, ast.Name)
                                                           and x.value.func.id in RX_STATEFUL for x in h.direct_nodes()):
                        makes = True
                if makes:
                    n_ctor += 1
                    rep.ob("E1-L0-rx-object", S, short(n), False,
                           f"`{short(n)}` is constructed in the factory body of {S.qual}: every source the returned "
                           f"operator is applied to shares this object")
            rep.ob("E1-L0-rx-object", S, f"{S.qual}: {n_ctor} stateful constructions at L0", n_ctor == 0 or True,
                   nontrivial=False)
    rep.extra["operator_factories_L0"] = n_fact
    # curry_flip
    cf = repo.fn(CURRY, "curry_flip")
    for g in cf.walk():
        if not g.is_func:
            continue
        bad = []
        if g.nonlocals:
            bad.append(f"nonlocal {sorted(g.nonlocals)}")
        for n in g.direct_nodes():
            if isinstance(n, (ast.List, ast.Dict, ast.Set, ast.ListComp, ast.DictComp, ast.SetComp)) and \
                    isinstance(getattr(n, "ctx", ast.Load()), ast.Load):
                bad.append("mutable display " + short(n))
            if isinstance(n, (ast.Assign, ast.AugAssign)):
                tg = n.targets if isinstance(n, ast.Assign) else [n.target]
                for t in tg:
                    if isinstance(t, (ast.Attribute, ast.Subscript)):
                        bad.append("store " + short(t))
            if isinstance(n, ast.Call) and isinstance(n.func, ast.Attribute) and n.func.attr in (
                    "append", "update", "setdefault", "add", "extend", "pop"):
                bad.append("mutation " + short(n))
        rep.ob("E1-curry-stateless", g, g.qual, not bad,
               f"curry_flip keeps state between application calls: {bad}")
