"""Roles of private instance attributes, inferred from how the constructor fills them — never from their names.

A rule that says "the queue is only touched under the lock" must keep deciding the same thing after a maintainer renames
`_queue` to `_items`: the checker therefore asks the class which attribute *is* the queue (the one __init__ fills with a
PriorityQueue(...)), which is the lock (threading.Lock() / RLock()), which holds a constructor parameter, which starts as a
given constant.  An attribute that cannot be identified yields a `?role` placeholder that matches nothing, so the rules that
need it report (fail closed) instead of passing vacuously."""
from __future__ import annotations

import ast
from typing import Dict, List, Optional, Tuple

from ..astutil import call_name, u
from ..frontend import Fn, Repo


def init_stores(init: Fn) -> List[Tuple[str, ast.AST]]:
    out = []
    for n in init.direct_nodes():
        if isinstance(n, (ast.Assign, ast.AnnAssign)) and n.value is not None:
            for t in (n.targets if isinstance(n, ast.Assign) else [n.target]):
                if isinstance(t, ast.Attribute) and isinstance(t.value, ast.Name) and t.value.id == "self":
                    out.append((t.attr, n.value))
    return out


class Roles:
    def __init__(self, init: Fn):
        self.init = init
        self.stores = init_stores(init)

    def by_call(self, *callees: str, nth: int = 0, default: Optional[str] = None) -> str:
        hits = [a for a, v in self.stores if isinstance(v, ast.Call) and (call_name(v) in callees or u(v.func) in callees)]
        return hits[nth] if len(hits) > nth else (default or f"?attr-built-by-{'/'.join(callees)}")

    def by_param(self, param: str, default: Optional[str] = None) -> str:
        hits = [a for a, v in self.stores if any(isinstance(x, ast.Name) and x.id == param for x in ast.walk(v))]
        return hits[0] if hits else (default or f"?attr-holding-{param}")

    def by_param_index(self, i: int) -> str:
        ps = [p for p in self.init.params if p != "self"]
        return self.by_param(ps[i]) if len(ps) > i else f"?attr-holding-param-{i}"

    def by_const(self, value, nth: int = 0, only: bool = False) -> str:
        hits = [a for a, v in self.stores if isinstance(v, ast.Constant) and v.value is value and type(v.value) is type(value)]
        if only and len(hits) != 1:
            return f"?attr-initialised-{value!r}"
        return hits[nth] if len(hits) > nth else f"?attr-initialised-{value!r}"

    def all_by_const(self, value) -> List[str]:
        return [a for a, v in self.stores if isinstance(v, ast.Constant) and v.value is value and type(v.value) is type(value)]


def roles(repo: Repo, rel: str, cls: str) -> Roles:
    return Roles(repo.fn(rel, f"{cls}.__init__"))
