"""Shared rule instantiations for C02/C03 (ownership, wrapper release, invoke guard, producers)."""
from __future__ import annotations

import ast
from typing import List

from ..astutil import call_name, dotted, short, u
from ..core import Report
from ..ctx import sites, dominates
from ..engines.ownership import Ownership
from ..frontend import Fn, Repo
from ..model import model_of
from ..rules import has_guard, assigns_to, assigned_const

ADO = "reactivex/observer/autodetachobserver.py"

OWN_SCOPE_PREFIXES = ("reactivex/operators/", "reactivex/observable/", "reactivex/subject/",
                      "reactivex/internal/utils.py", "reactivex/__init__.py", "reactivex/notification.py",
                      "reactivex/testing/", "reactivex/run.py")


def rule_ownership(repo: Repo, rep: Report, rid: str = "E7-owned", floor: int = 150) -> None:
    rep.rule(rid, "every subscription / scheduled item / ref-count dependent acquired in the closure tree of a "
                  "subscribe function is reachable through held-by edges (composite members, .add, .disposable=, "
                  "Disposable(fn) disposing it, scheduled action results, returns) from the disposable the function "
                  "returns", floor=floor)
    m = model_of(repo)
    roots = sorted([f for f in m.l2_functions() if f.module.rel.startswith(OWN_SCOPE_PREFIXES)], key=lambda f: f.ref)
    rep.extra.setdefault("subscribe_functions_analysed", len(roots))
    for f in roots:
        o = Ownership(m, f)
        seen = {}
        for a, ok in o.results():
            k = f"{a.fn.qual}: {a.text}"
            seen[k] = seen.get(k, 0) + 1
            c = k if seen[k] == 1 else f"{k} #{seen[k]}"
            rep.ob(rid, f, c, ok,
                   f"the {a.kind} acquired by `{short(a.node)}` in {a.fn.qual} is not held by anything reachable from "
                   f"the disposable returned by {f.qual}: it outlives termination / dispose of the pipeline")


def rule_wrapper_release(repo: Repo, rep: Report) -> None:
    """AutoDetachObserver: terminal => dispose (finally), dispose => subscription disposed."""
    rep.rule("W1-terminal-disposes", "AutoDetachObserver.on_error/on_completed reach self.dispose() on every path, "
                                     "including when the callback raises (finally)", floor=2)
    rep.rule("W2-dispose-releases", "AutoDetachObserver.dispose unconditionally disposes the SingleAssignmentDisposable "
                                    "that set_disposable/subscription stores the source subscription in", floor=3)
    cls = repo.fn(ADO, "AutoDetachObserver")
    for mname in ("on_error", "on_completed"):
        m = repo.fn(ADO, f"AutoDetachObserver.{mname}")
        cb = [s for s in sites(m) if isinstance(s.node, ast.Call) and isinstance(s.node.func, ast.Attribute)
              and dotted(s.node.func.value) == "self" and s.node.func.attr.startswith("_on_")]
        disp = [s for s in sites(m) if isinstance(s.node, ast.Call) and dotted(s.node.func) == "self.dispose"]
        where = m
        if not cb:
            # the two terminal handlers may share a helper that receives the callback: `self._terminate(self._on_error, error)`
            for s in sites(m):
                n = s.node
                if isinstance(n, ast.Call) and isinstance(n.func, ast.Attribute) and dotted(n.func.value) == "self":
                    hlp = cls.child(n.func.attr)
                    from ..astutil import handed_callback
                    idx = next((i for i, a in enumerate(n.args) if handed_callback(a)), None)
                    if hlp is not None and hlp.is_func and idx is not None and len(hlp.params) > idx + 1:
                        pname = hlp.params[idx + 1]
                        cb = [x for x in sites(hlp) if isinstance(x.node, ast.Call) and isinstance(x.node.func, ast.Name) and x.node.func.id == pname]
                        disp = [x for x in sites(hlp) if isinstance(x.node, ast.Call) and dotted(x.node.func) == "self.dispose"]
                        where = hlp
        if not cb:
            rep.ob("W1-terminal-disposes", m, f"{mname}: runs the subscriber's callback", False,
                   f"AutoDetachObserver.{mname} does not invoke the subscriber's {mname} callback (directly or through a helper that receives it)")
            continue
        m = where
        for c in cb:
            ok = False
            for d in disp:
                if any(t in c.ctx.tries for t in d.ctx.finals):
                    ok = True           # finally of a try enclosing the callback
                elif dominates(d, c):
                    ok = True           # disposed before the callback
            rep.ob("W1-terminal-disposes", m, short(c.node), ok,
                   "after the terminal callback the wrapper does not reach self.dispose() on every path (a raising "
                   "callback would leave the source subscription open)")
    d = repo.fn(ADO, "AutoDetachObserver.dispose")
    init = repo.fn(ADO, "AutoDetachObserver.__init__")
    sad_attrs = set()
    for s in sites(init):
        n = s.node
        if isinstance(n, (ast.Assign, ast.AnnAssign)) and isinstance(n.value, ast.Call) \
                and call_name(n.value) in ("SingleAssignmentDisposable", "SerialDisposable"):
            t = n.targets[0] if isinstance(n, ast.Assign) else n.target
            if dotted(t) and dotted(t).startswith("self."):
                sad_attrs.add(dotted(t))
    rep.require(sad_attrs, "subscription container attribute in AutoDetachObserver.__init__")
    setter = repo.fn(ADO, "AutoDetachObserver.set_disposable")
    stored = set()
    for s in sites(setter):
        n = s.node
        if isinstance(n, ast.Assign):
            for t in n.targets:
                if isinstance(t, ast.Attribute) and t.attr == "disposable" and dotted(t.value) in sad_attrs \
                        and u(n.value) == setter.params[1]:
                    stored.add(dotted(t.value))
    rep.ob("W2-dispose-releases", setter, "self.<container>.disposable = value", bool(stored),
           "set_disposable does not store the subscription in the wrapper's container")
    prop_ok = False
    for n in cls.direct_nodes():
        if isinstance(n, ast.Assign) and any(u(t) == "subscription" for t in n.targets) and isinstance(n.value, ast.Call) \
                and call_name(n.value) == "property":
            for k in n.value.keywords:
                if k.arg == "fset" and u(k.value) == "set_disposable":
                    prop_ok = True
            if len(n.value.args) >= 2 and u(n.value.args[1]) == "set_disposable":
                prop_ok = True
    rep.ob("W2-dispose-releases", cls, "subscription = property(fset=set_disposable)", prop_ok,
           "the `subscription` property no longer routes to set_disposable")
    ok = False
    for s in sites(d):
        n = s.node
        if isinstance(n, ast.Call) and isinstance(n.func, ast.Attribute) and n.func.attr == "dispose" \
                and dotted(n.func.value) in stored and not s.ctx.branch:
            ok = True
    rep.ob("W2-dispose-releases", d, "self.<container>.dispose()", ok,
           "AutoDetachObserver.dispose does not unconditionally dispose the stored source subscription")


def rule_element_not_terminal(repo: Repo, rep: Report, rule: str) -> int:
    """The element entry points of the observer wrappers (AutoDetachObserver.on_next, Observer.on_next) never stop or detach the
    observer — on no path, exception handlers included: an observer stays subscribed until a terminal notification or its own
    dispose()."""
    n = 0
    for rel, q in ((ADO, "AutoDetachObserver.on_next"), ("reactivex/observer/observer.py", "Observer.on_next")):
        m = repo.fn(rel, q)
        bad = []
        for x in m.all_nodes():
            if isinstance(x, (ast.Assign, ast.AugAssign)):
                tg = x.targets if isinstance(x, ast.Assign) else [x.target]
                bad += [short(x) for t in tg if isinstance(t, ast.Attribute) and t.attr == "is_stopped"]
            if isinstance(x, ast.Call) and isinstance(x.func, ast.Attribute) and x.func.attr in ("dispose", "fail") and (dotted(x.func.value) or "").split(".")[0] == "self":
                bad.append(short(x))
        n += 1
        rep.ob(rule, m, f"{q}: no stop / detach on any path ({len(bad)} found)", not bad,
               f"{q} stops or detaches the observer ({'; '.join(bad)}): an observer whose element callback raised once is silently "
               f"unsubscribed (removed from a Subject's observer list) although it never unsubscribed, and misses every later notification")
    return n


def rule_dependent_reference(repo: Repo, rep: Report, rule: str) -> int:
    """The two wrappers that hand out dependents of a RefCountDisposable (add_ref, GroupedObservable) take the reference
    (`r.disposable`, a property that increments the count) for *every* subscription — never skipped by a condition other than
    "no RefCountDisposable was given" — and *before* they subscribe the wrapped sequence (a value replayed during that subscribe
    may dispose the outer subscription: with the count still 0 the source is released under the live subscriber)."""
    from ..model import is_subscribe_call
    n_inst = 0
    for rel, q, pi in (("reactivex/internal/utils.py", "add_ref", 1), ("reactivex/observable/groupedobservable.py", "GroupedObservable.__init__", 3)):
        f = repo.fn(rel, q)
        rp = f.params[pi]
        for g in f.walk():
            if not (g.is_func and g is not f):
                continue
            ss = list(sites(g))
            takes = [x for x in ss if isinstance(x.node, ast.Attribute) and x.node.attr == "disposable" and isinstance(x.node.value, ast.Name) and x.node.value.id == rp]
            subs = [x for x in ss if is_subscribe_call(x.node)]
            if not subs:
                continue
            n_inst += 1
            pos = lambda x: (x.stmt.lineno, x.stmt.col_offset, x.node.lineno, x.node.col_offset)
            # a take may sit under a test of the RefCountDisposable parameter itself (None = nothing to count), under nothing else
            own = lambda e: any(isinstance(x_, ast.Name) and x_.id == rp for x_ in ast.walk(e)) and not [a_ for a_ in ast.walk(e) if isinstance(a_, (ast.Attribute, ast.Call))]
            extra = lambda t: {(u(e), p_) for e, p_ in t.ctx.guards if not own(e)}
            ok = bool(takes)
            for sb in subs:
                sg = {(u(e), p_) for e, p_ in sb.ctx.guards}
                if not any(pos(t) < pos(sb) and extra(t) <= sg for t in takes):
                    ok = False
            rep.ob(rule, g, f"{q}: `{rp}.disposable` taken for every subscription, before the wrapped sequence is subscribed", ok,
                   f"{q} hands out a subscription to the wrapped sequence without first taking a dependent reference on the RefCountDisposable "
                   f"(skipped under a condition, or taken after the subscribe): the source is released while this subscriber is still live "
                   f"(outer subscription disposed earlier / during the subscribe, another dependent released)")
    # GroupedObservable: the counting wrapper is what subscribers get exactly when a RefCountDisposable was given
    gi = repo.fn("reactivex/observable/groupedobservable.py", "GroupedObservable.__init__")
    md = gi.params[3]
    sel = [n_.value for n_ in gi.direct_nodes() if isinstance(n_, (ast.Assign, ast.AnnAssign)) and n_.value is not None and isinstance(n_.value, ast.IfExp)
           and any(isinstance(c_, ast.Call) and call_name(c_) == "Observable" for c_ in ast.walk(n_.value))]
    okg = False
    if len(sel) == 1:
        v = sel[0]
        wrapper_in_body = any(isinstance(c_, ast.Call) and call_name(c_) == "Observable" for c_ in ast.walk(v.body))
        t = v.test
        neg = isinstance(t, ast.UnaryOp) and isinstance(t.op, ast.Not)
        core = t.operand if neg else t
        given = (u(core) == md) or (isinstance(core, ast.Compare) and u(core.left) == md and isinstance(core.ops[0], ast.IsNot)) 
        absent = isinstance(core, ast.Compare) and u(core.left) == md and isinstance(core.ops[0], ast.Is)
        truth_means_given = (given and not neg) or (absent and neg)
        truth_means_absent = (given and neg) or (absent and not neg)
        okg = (wrapper_in_body and truth_means_given) or ((not wrapper_in_body) and truth_means_absent)
    rep.ob(rule, gi, f"GroupedObservable: the counting wrapper is used iff `{md}` was given (`{short(sel[0], 70) if sel else '?'}`)", okg,
           "GroupedObservable hands out the raw subject although a RefCountDisposable was given (the selection between the subject and the counting "
           "wrapper is inverted): group subscriptions take no dependent, so disposing the outer subscription releases the source under live groups")
    return n_inst + 1


def rule_refcount_outputs(repo: Repo, rep: Report) -> None:
    """Group / window observables handed downstream share the returned RefCountDisposable."""
    rep.rule("G1-addref", "in every subscribe function that creates a RefCountDisposable r, each value handed to "
                          "observer.on_next is built with add_ref(subject, r) / GroupedObservable(key, subject, r), "
                          "and r is (held by) the returned disposable", floor=12)
    m = model_of(repo)
    # add_ref itself: the reference (`r.disposable` is a property that *increments* the count) is taken by each
    # subscription, inside the subscribe function -- a window nobody subscribes to must not hold one
    ar = repo.fn("reactivex/internal/utils.py", "add_ref")
    rp = ar.params[1]
    takes = [(g, n) for g in ar.walk() if g.is_func or g is ar for n in g.direct_nodes()
             if isinstance(n, ast.Attribute) and n.attr == "disposable" and isinstance(n.value, ast.Name) and n.value.id == rp]
    ok = bool(takes) and all(m.role.get(g) == "subscribe" for g, _ in takes)
    rep.ob("G1-addref", ar, "add_ref: r.disposable is taken inside the subscribe function (one reference per subscription)", ok,
           "add_ref takes its reference on the RefCountDisposable when the window is *created*, not when it is subscribed: a window that is "
           "handed downstream but never subscribed keeps the source (and the boundary / closing subscriptions) alive for ever")
    # ... and a reference that was taken is handed back on EVERY return of that subscribe function (must-hold per return): a path that
    # returns only the inner subscription leaks the count -- the source is never released
    from ..ctx import sites as _sites
    for g, n in takes:
        if m.role.get(g) != "subscribe":
            continue
        holders = {"<expr>"}
        for x in g.direct_nodes():
            if isinstance(x, ast.Assign) and len(x.targets) == 1 and isinstance(x.targets[0], ast.Name) and any(y is n for y in ast.walk(x.value)):
                holders.add(x.targets[0].id)
        for r_ in _sites(g):
            if isinstance(r_.node, ast.Return):
                v_ = r_.node.value
                held = v_ is not None and (any(y is n for y in ast.walk(v_)) or any(isinstance(y, ast.Name) and y.id in holders for y in ast.walk(v_)))
                rep.ob("G1-addref", g, f"add_ref: `{short(r_.node, 60)}` hands the reference taken on {rp} back", held,
                       f"add_ref's subscribe function takes a reference on the RefCountDisposable (`{rp}.disposable` increments the count) and returns "
                       f"`{short(r_.node, 60)}` without it on this path: the count never returns to zero and the source / boundary subscriptions are never disposed")
    rule_dependent_reference(repo, rep, "G1-addref")
    for f in sorted(m.l2_functions(), key=lambda f: f.ref):
        rvars = {}
        for g in f.walk():
            if not g.is_func:
                continue
            for n in g.direct_nodes():
                if isinstance(n, (ast.Assign, ast.AnnAssign)) and isinstance(n.value, ast.Call) \
                        and call_name(n.value) == "RefCountDisposable":
                    t = n.targets[0] if isinstance(n, ast.Assign) else n.target
                    if isinstance(t, ast.Name):
                        rvars[t.id] = g
        if not rvars:
            continue
        own = Ownership(m, f)
        for r, g in rvars.items():
            ok = own.reaches_ret(("v", id(g.owner(r) or g), r))
            rep.ob("G1-addref", f, f"{r} returned", ok,
                   f"the RefCountDisposable `{r}` is not (held by) the disposable returned by {f.qual}")
        obs = f.params[0] if f.params else "observer"
        for g in f.walk():
            if not g.is_func:
                continue
            for n in g.direct_nodes():
                if isinstance(n, ast.Call) and dotted(n.func) == f"{obs}.on_next" and n.args and g.owner(obs) is f:
                    e = _expand(g, n.args[0], 3, set(rvars))
                    ok = False
                    for x in ast.walk(e):
                        if isinstance(x, ast.Call) and call_name(x) in ("add_ref", "GroupedObservable"):
                            names = {a.id for a in list(x.args) + [k.value for k in x.keywords] if isinstance(a, ast.Name)}
                            if names & set(rvars):
                                ok = True
                    rep.ob("G1-addref", g, short(n), ok,
                           f"`{short(n)}` hands a group/window downstream that is not tied to the RefCountDisposable "
                           f"({', '.join(rvars)}): the source subscription is released while the group is still "
                           f"subscribed, or never released")


def rule_refcount_not_self_held(repo: Repo, rep: Report) -> None:
    """A ref-counted group/window must not be handed to a user callable whose result the operator itself subscribes
    and holds under that very RefCountDisposable (the dependent would keep the count above zero forever)."""
    rep.rule("G2-no-self-reference", "values tied to the RefCountDisposable flow only downstream, never into a user "
                                     "selector whose subscription the operator holds itself", floor=1)
    m = model_of(repo)
    for f in sorted(m.l2_functions(), key=lambda f: f.ref):
        rvars = set()
        for g in f.walk():
            if g.is_func:
                for n in g.direct_nodes():
                    if isinstance(n, (ast.Assign, ast.AnnAssign)) and isinstance(n.value, ast.Call) \
                            and call_name(n.value) == "RefCountDisposable":
                        t = n.targets[0] if isinstance(n, ast.Assign) else n.target
                        if isinstance(t, ast.Name):
                            rvars.add(t.id)
        if not rvars:
            continue
        for g in f.walk():
            if not g.is_func:
                continue
            for n in g.direct_nodes():
                if not (isinstance(n, ast.Call) and isinstance(n.func, ast.Name)):
                    continue
                o = g.owner(n.func.id)
                # callee is a parameter (or alias of one) of an enclosing *factory* function: a user selector
                if o is None or o.is_module or o is f or f.is_ancestor_of(o):
                    continue
                if not n.args:
                    continue
                groups = []
                for a in n.args:
                    e = _expand(g, a, 3, rvars)
                    for x in ast.walk(e):
                        if isinstance(x, ast.Call) and call_name(x) in ("add_ref", "GroupedObservable", "Subject"):
                            groups.append(x)
                if not groups:
                    continue
                tied = [x for x in groups if {a.id for a in list(x.args) + [k.value for k in x.keywords]
                                              if isinstance(a, ast.Name)} & rvars]
                rep.ob("G2-no-self-reference", g, short(n), not tied,
                       f"`{short(n)}` hands a ref-counted group to a user selector; the operator subscribes the selector's "
                       f"result and keeps that subscription inside the disposable guarded by the same ref count, so the "
                       f"count never reaches zero and the source subscription is never released")


def _expand(g: Fn, e: ast.AST, depth: int, stop=frozenset()) -> ast.AST:
    """Substitute local single-assignment names by their defining expression (depth-bounded)."""
    if depth == 0:
        return e

    class T(ast.NodeTransformer):
        def visit_Name(self, node: ast.Name):
            o = g.owner(node.id)
            if o is None or o.is_module or node.id in stop:
                return node
            bs = [b for b in o.binds.get(node.id, []) if b[0] == "assign"]
            if len(bs) >= 1 and all(getattr(b[1], "value", None) is not None for b in bs) and len(o.binds[node.id]) == len(bs):
                # union of all definitions as a tuple expression
                vals = [_expand(o, b[1].value, depth - 1, stop) for b in bs
                        if not (isinstance(b[1].value, ast.Constant))]
                if len(vals) == 1:
                    return vals[0]
                if vals:
                    return ast.Tuple(elts=vals, ctx=ast.Load())
            return node

    import copy
    return T().visit(copy.deepcopy(e))


def rule_invoke_guard(repo: Repo, rep: Report, rid: str = "S1-invoke-guard") -> None:
    """Every `item.invoke()` of a ScheduledItem is dominated by `not item.is_cancelled()`."""
    rep.rule(rid, "every ScheduledItem.invoke() call is dominated by `not <same item>.is_cancelled()`; "
                  "ScheduledItem.cancel disposes the item's disposable and is_cancelled reads it", floor=5)
    n_sites = 0
    for f in repo.all_functions():
        if f.module.rel.startswith("reactivex/scheduler/scheduleditem"):
            continue
        for s in sites(f):
            n = s.node
            if isinstance(n, ast.Call) and isinstance(n.func, ast.Attribute) and n.func.attr == "invoke" and not n.args \
                    and not n.keywords:
                recv = u(n.func.value)
                ok = has_guard(s.ctx, f"{recv}.is_cancelled()", False)
                if not ok:
                    # result bound to a local first:  c = item.is_cancelled(); if not c: item.invoke()
                    for e, p in s.ctx.guards:
                        if isinstance(e, ast.Name) and not p:
                            for a in assigns_to(f, e.id):
                                if isinstance(a.node, ast.Assign) and u(a.node.value) == f"{recv}.is_cancelled()" \
                                        and dominates(a, s):
                                    ok = True
                n_sites += 1
                rep.ob(rid, f, short(n), ok,
                       f"`{short(n)}` is not dominated by `not {recv}.is_cancelled()`: a cancelled (disposed) action "
                       f"would still run")
    si = "reactivex/scheduler/scheduleditem.py"
    cancel = repo.fn(si, "ScheduledItem.cancel")
    isc = repo.fn(si, "ScheduledItem.is_cancelled")
    inv = repo.fn(si, "ScheduledItem.invoke")
    ok = any(isinstance(s.node, ast.Call) and dotted(s.node.func) == "self.disposable.dispose" and not s.ctx.branch
             for s in sites(cancel))
    rep.ob(rid, cancel, "self.disposable.dispose()", ok, "ScheduledItem.cancel does not dispose the item's disposable")
    ok = any(isinstance(s.node, ast.Return) and u(s.node.value) == "self.disposable.is_disposed" for s in sites(isc))
    rep.ob(rid, isc, "return self.disposable.is_disposed", ok,
           "is_cancelled does not report the state of the disposable that cancel() disposes")
    # invoke stores the disposable returned by the action so that cancel also cancels nested work
    ok = False
    for s in sites(inv):
        n = s.node
        if isinstance(n, ast.Assign) and any(u(t) == "self.disposable.disposable" for t in n.targets) and not s.ctx.branch and not s.ctx.guards:
            ok = True
    rep.ob(rid, inv, "self.disposable.disposable = <result of action>, unconditionally", ok,
           "ScheduledItem.invoke drops the disposable returned by the action on some path (nested work cannot be cancelled): an item "
           "cancelled while its own action runs must still hand the result to its (disposed) SingleAssignmentDisposable, which is what "
           "disposes the follow-up the action scheduled — otherwise a self-rescheduling action cancelled from inside runs for ever")
