"""Shared state-discipline rules of the stateful element-wise operators (C05, C07)."""
from __future__ import annotations

import ast
from typing import Iterable, List

from ..astutil import short, u
from ..core import Report
from ..ctx import sites
from ..frontend import Fn
from ..rules import cell_name


def closure_cells(g: Fn, e: ast.AST) -> set:
    """names in e that are closure state of g (owned by an enclosing function, not by g, not module-level)"""
    out = set()
    for x in ast.walk(e):
        if isinstance(x, ast.Name):
            o = g.owner(x.id)
            if o is not None and o is not g and o.is_func and x.id not in o.params:
                out.add(x.id)
    return out


def downstream_next_calls(g: Fn, obs: str):
    return [s for s in sites(g) if isinstance(s.node, ast.Call) and isinstance(s.node.func, ast.Attribute) and s.node.func.attr == "on_next"
            and isinstance(s.node.func.value, ast.Name) and s.node.func.value.id == obs]


def rule_state_before_callout(rep: Report, rule: str, root: Fn) -> int:
    """Gate state is updated before the downstream on_next it gates.

    A gate cell is closure state read in a guard that dominates a downstream `observer.on_next(...)` and written in
    the same handler.  The downstream call may re-enter the operator synchronously (a Subject fed back by its own
    consumer): a write placed after the call lets the nested delivery decide on the stale value.  All gate writes of
    the operators in scope precede the call on today's tree (confirmed by reading: take, skip_while, take_while,
    distinct_until_changed, element_at, find)."""
    obs = root.params[0] if root.params else "observer"
    n = 0
    # terminal handlers of the operator's *own source*: once the source has terminated it cannot re-enter with another
    # element, so the order of a final flush and its bookkeeping is immaterial there
    from ..engines.typestate import source_names
    from ..model import is_subscribe_call, resolve_callable, subscribe_slots
    srcs = set(source_names(root))
    src_terminal = set()
    for g in root.walk():
        if g.is_func:
            for s in sites(g):
                if is_subscribe_call(s.node):
                    base = s.node.func.value
                    while isinstance(base, ast.Call) and isinstance(base.func, ast.Attribute):
                        base = base.func.value
                    if isinstance(base, ast.Name) and base.id in srcs:
                        for k, v in subscribe_slots(s.node).items():
                            if k in ("on_error", "on_completed") and v is not None:
                                t = resolve_callable(g, v)
                                while t.kind == "sync" and t.inner is not None:
                                    t = t.inner
                                if t.kind == "fn":
                                    src_terminal.add(t.fn)
    for g in root.walk():
        if not g.is_func or g is root or g in src_terminal:
            continue
        calls = downstream_next_calls(g, obs)
        if not calls:
            continue
        for c in calls:
            gate = set()
            for e, _p in c.ctx.guards:
                gate |= closure_cells(g, e)
            if not gate:
                continue
            for w in sites(g):
                if not isinstance(w.node, (ast.Assign, ast.AugAssign)):
                    continue
                tgt = w.node.targets[0] if isinstance(w.node, ast.Assign) else w.node.target
                cn = cell_name(tgt)
                if cn not in gate:
                    continue
                n += 1
                same_path = w.ctx.branch[:len(c.ctx.branch)] == c.ctx.branch or c.ctx.branch[:len(w.ctx.branch)] == w.ctx.branch
                # a write that is only reached when the guard of the call was false (early return after the call) is
                # not on the call's path
                from ..astutil import atoms
                cg = {(u(e), p) for e, p in c.ctx.guards}
                neg = set()
                for e, p in c.ctx.guards:
                    na = atoms(e, not p)
                    if len(na) == 1:
                        neg.add((u(na[0][0]), na[0][1]))
                exclusive = any((u(e), not p) in cg or (u(e), p) in neg for e, p in w.ctx.guards)
                late = same_path and not exclusive and w.index > c.index and not w.ctx.loops
                rep.ob(rule, g, f"{root.qual.split('.')[0]}.{g.name}: `{short(w.node, 40)}` before `{short(c.node, 40)}`", not late,
                       f"{g.qual}: the state `{cn}` that decides whether `{u(c.node)}` happens is updated only after that call. "
                       f"If the subscriber's on_next makes the source emit again synchronously (a feedback loop through a "
                       f"Subject), the nested element is judged against the stale value: more elements than specified get through")
    return n
