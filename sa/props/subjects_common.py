"""Shared rules for the Subject family (C20-C23): re-entrancy-safe broadcast structure."""
from __future__ import annotations

import ast
from typing import List, Optional

from ..astutil import call_name, dotted, short, u
from ..core import Report
from ..ctx import Path, paths, sites, dominates
from ..frontend import Fn, Repo
from ..rules import has_guard

SUBJ = "reactivex/subject/subject.py"
INNER = "reactivex/subject/innersubscription.py"
KINDS = ("on_next", "on_error", "on_completed")


def rules(rep: Report, floors=None) -> None:
    floors = floors or {}
    rep.rule("B1-snapshot", "delivery loops iterate a snapshot of the observer list taken under the lock, never the live list", floor=floors.get("B1-snapshot", 0))
    rep.rule("B2-state-before-callout", "terminal cores clear the observer list / record the exception (and value cores store "
                                        "the value) before the first observer is called", floor=floors.get("B2-state-before-callout", 0))
    rep.rule("B3-subscribe-branches", "_subscribe_core: check_disposed first; live branch registers and returns a removing "
                                      "subscription; stopped branch replays exactly the terminal notification and returns an "
                                      "inert disposable", floor=floors.get("B3-subscribe-branches", 0))
    rep.rule("B4-check-disposed", "public on_* call check_disposed before delivering via super(); check_disposed raises "
                                  "DisposedException when disposed", floor=floors.get("B4-check-disposed", 0))
    rep.rule("B5-dispose", "dispose marks disposed, drops observers and stops, under the lock", floor=floors.get("B5-dispose", 0))


def delivery_loops(m: Fn):
    """(loop site, iter expr, loop var, [delivery calls])"""
    out = []
    for s in sites(m):
        n = s.node
        if isinstance(n, ast.For) and isinstance(n.target, ast.Name):
            calls = [x for x in ast.walk(n) if isinstance(x, ast.Call) and isinstance(x.func, ast.Attribute)
                     and x.func.attr in KINDS and dotted(x.func.value) == n.target.id]
            if calls:
                out.append((s, n.iter, n.target.id, calls))
    return out


def rule_snapshot(rep: Report, m: Fn) -> None:
    if not delivery_loops(m):
        rep.ob("B1-snapshot", m, f"{m.name}: delivers from a snapshot of the observers", False,
               f"{m.parent.name}.{m.name} has no delivery loop over a snapshot taken in its own critical section (it delegates the broadcast, or "
               f"does not broadcast): the state it stores and the set of observers it delivers to are no longer fixed in ONE atomic step — a "
               f"subscriber arriving in between receives the value twice, or not at all")
        return
    for s, it, var, calls in delivery_loops(m):
        ok = False
        why = f"iterates `{u(it)}`"
        if isinstance(it, ast.Name):
            defs = [d for d in sites(m) if isinstance(d.node, (ast.Assign, ast.AnnAssign)) and d.node.value is not None
                    and u(d.node.targets[0] if isinstance(d.node, ast.Assign) else d.node.target) == it.id]
            snap = [d for d in defs if u(d.node.value) in ("self.observers.copy()", "list(self.observers)", "self.observers[:]",
                                                           "tuple(self.observers)")]
            ok = bool(defs) and len(snap) == len(defs) and all("self.lock" in d.ctx.locks for d in snap) \
                and all(dominates(d, s) for d in snap)
            why = f"`{it.id}` is not (only) a copy of self.observers taken under the lock before the loop"
        rep.ob("B1-snapshot", m, f"{m.name}: for {var} in {u(it)}", ok,
               f"{m.parent.name}.{m.name} {why}: an observer that unsubscribes (or subscribes) from inside a callback makes "
               f"the loop skip or repeat a neighbour")


def rule_state_before_callout(rep: Report, m: Fn, need_clear: bool, need_exception: bool, need_value: Optional[str] = None) -> None:
    loops = delivery_loops(m)
    # delivery sites: the loops over the snapshot, and a delegation to the parent's core (which delivers)
    deleg = [s for s in sites(m) if isinstance(s.node, ast.Call) and (dotted(s.node.func) or "").startswith("super()._on_")]
    cands = [s for s, *_ in loops] + deleg
    first = min(cands, key=lambda s: s.index) if cands else None
    def before(pred, what, detail):
        ss = [s for s in sites(m) if pred(s.node)]
        ok = bool(ss) and all("self.lock" in s.ctx.locks for s in ss) and (first is None or all(dominates(s, first) for s in ss))
        rep.ob("B2-state-before-callout", m, f"{m.parent.name}.{m.name}: {what} before delivery", ok, detail)
    if need_clear:
        before(lambda n: (isinstance(n, ast.Call) and dotted(n.func) == "self.observers.clear")
               or (isinstance(n, ast.Assign) and any(u(t) == "self.observers" for t in n.targets)),
               "observer list cleared",
               "the observer list is not cleared under the lock before the terminal notification is delivered: a subscribe "
               "made from inside a terminal callback is registered on a dead subject, or observers get the terminal twice")
    if need_exception:
        p = m.params[1]
        before(lambda n: isinstance(n, ast.Assign) and any(u(t) == "self.exception" for t in n.targets) and u(n.value) == p,
               "exception recorded",
               "the exception is not recorded before the observers are called: an observer subscribing from inside on_error "
               "(or later) is told the subject completed")
    if need_value:
        p = m.params[1]
        before(lambda n: isinstance(n, ast.Assign) and any(u(t) == f"self.{need_value}" for t in n.targets) and u(n.value) == p,
               "value stored",
               "the new value is not stored before the observers are called: a subscriber added from inside a callback "
               "receives the previous value")


def field_aliases(m: Fn):
    """local name -> 'self.<field>' for locals that are plain copies of a field (`ex = self.exception`)."""
    out = {}
    for s in sites(m):
        n = s.node
        if isinstance(n, (ast.Assign, ast.AnnAssign)) and n.value is not None:
            t = n.targets[0] if isinstance(n, ast.Assign) else n.target
            if isinstance(t, ast.Name) and isinstance(n.value, ast.Attribute) and dotted(n.value.value) == "self":
                out[t.id] = u(n.value)
    return out


def canon(m: Fn, e: ast.AST) -> str:
    al = field_aliases(m)
    if isinstance(e, ast.Name) and e.id in al:
        return al[e.id]
    return u(e)


def subscribe_paths(m: Fn, obs: str):
    al = field_aliases(m)
    wrappers = {u(s.node.targets[0]) for s in sites(m) if isinstance(s.node, ast.Assign) and isinstance(s.node.value, ast.Call)
                and call_name(s.node.value) == "ScheduledObserver"}

    def ev(n: ast.AST) -> Optional[str]:
        if isinstance(n, ast.Call):
            d = dotted(n.func)
            if d == "self.check_disposed":
                return "CHECK"
            if d == "self.observers.append":
                return "APPEND"
            if isinstance(n.func, ast.Attribute) and n.func.attr in KINDS and dotted(n.func.value) in ({obs} | wrappers):
                return {"on_next": "NEXT", "on_error": "ERR", "on_completed": "COMPL"}[n.func.attr] + ":" + \
                    ",".join(al.get(a.id, u(a)) if isinstance(a, ast.Name) else u(a) for a in n.args)
            if d in ("so.ensure_active",):
                return "ACTIVATE"
            if d in ("self._trim",):
                return "TRIM"
        return None
    return paths(m, ev)


def decided_field(m: Fn, p: Path, field: str):
    """Truth value the path decided for `self.<field>` (directly, through a local copy, or as `is (not) None`)."""
    names = [f"self.{field}"] + [k for k, v in field_aliases(m).items() if v == f"self.{field}"]
    for nm in names:
        for form, flip in ((nm, False), (f"{nm} is not None", False), (f"{nm} is None", True)):
            d = p.decided(form)
            if d is not None:
                return (not d) if flip else d
    return None


def ret_kind(p: Path) -> str:
    v = p.ret
    if isinstance(v, ast.Call):
        return call_name(v) or "?"
    if isinstance(v, ast.Name):
        return "var:" + v.id
    return "?"


def rule_public_entry(rep: Report, cls: Fn) -> None:
    for k in KINDS:
        m = cls.child(k)
        if m is None:
            continue
        chk = [s for s in sites(m) if isinstance(s.node, ast.Call) and dotted(s.node.func) == "self.check_disposed"]
        sup = [s for s in sites(m) if isinstance(s.node, ast.Call) and dotted(s.node.func) == f"super().{k}"]
        ok = bool(chk) and bool(sup) and all(dominates(chk[0], s) for s in sup) and not chk[0].ctx.branch
        rep.ob("B4-check-disposed", m, f"{cls.name}.{k}", ok,
               f"{cls.name}.{k} does not call check_disposed() before delivering: emitting on a disposed subject does not "
               f"raise DisposedException")
    cd = cls.child("check_disposed")
    if cd is not None:
        ok = any(isinstance(s.node, ast.Raise) and "DisposedException" in u(s.node.exc) and has_guard(s.ctx, "self.is_disposed", True)
                 for s in sites(cd))
        rep.ob("B4-check-disposed", cd, "raise DisposedException if is_disposed", ok,
               "check_disposed does not raise DisposedException when the subject is disposed")


def rule_dispose(rep: Report, cls: Fn, extra_field: Optional[str] = None) -> None:
    d = cls.child("dispose")
    if d is None:
        return
    def has(pred):
        return any(pred(s) for s in sites(d))
    sup = has(lambda s: isinstance(s.node, ast.Call) and dotted(s.node.func) == "super().dispose" and "self.lock" in s.ctx.locks)
    if cls.name == "Subject":
        flag = has(lambda s: isinstance(s.node, ast.Assign) and any(u(t) == "self.is_disposed" for t in s.node.targets)
                   and isinstance(s.node.value, ast.Constant) and s.node.value.value is True and "self.lock" in s.ctx.locks)
        drop = has(lambda s: isinstance(s.node, ast.Assign) and any(u(t) == "self.observers" for t in s.node.targets)
                   and "self.lock" in s.ctx.locks) or has(lambda s: isinstance(s.node, ast.Call) and dotted(s.node.func) == "self.observers.clear")
        rep.ob("B5-dispose", d, "Subject.dispose: is_disposed, observers dropped, stopped", flag and drop and sup,
               "dispose() does not mark the subject disposed, drop its observers and stop it under the lock")
    else:
        rep.ob("B5-dispose", d, f"{cls.name}.dispose chains to Subject.dispose under the lock", sup,
               f"{cls.name}.dispose does not call super().dispose(): the subject stays usable after dispose")


def rule_exception_identity(rep: Report, m: Fn, rule: str = "B3-subscribe-branches") -> None:
    """The recorded exception decides error-vs-completion by identity (`is (not) None`), never by truthiness:
    an exception object may be falsy (__len__ / __bool__)."""
    from ..astutil import atoms
    exc_names = {"self.exception"}
    for s in sites(m):
        n = s.node
        if isinstance(n, ast.Assign) and u(n.value) == "self.exception" and isinstance(n.targets[0], ast.Name):
            exc_names.add(n.targets[0].id)
    found = False
    for s in sites(m):
        n = s.node
        if isinstance(n, (ast.If, ast.IfExp, ast.While)):
            from ..rules import effective_test
            for e, pol in atoms(effective_test(m, n.test), True):
                xs = [e] if not isinstance(e, ast.BoolOp) else e.values
                for x in xs:
                    while isinstance(x, ast.UnaryOp) and isinstance(x.op, ast.Not):
                        x = x.operand
                    if u(x) in exc_names:
                        found = True
                        rep.ob(rule, m, f"{m.parent.name}.{m.name}: `{short(n.test, 40)}` tests the recorded exception by truthiness", False,
                               "a falsy exception object (an exception class with __len__ / __bool__) is treated as 'no error': the "
                               "late subscriber is told the subject completed")
                    elif isinstance(x, ast.Compare) and u(x.left) in exc_names and isinstance(x.ops[0], (ast.Is, ast.IsNot)):
                        found = True
                        rep.ob(rule, m, f"{m.parent.name}.{m.name}: `{short(x, 40)}`", True)
    if not found:
        rep.ob(rule, m, f"{m.parent.name}.{m.name}: no test on the recorded exception", False,
               "the late-subscriber branch never distinguishes a recorded error from completion")


def rule_subscribe_atomic(rep: Report, cls: Fn, rule: str = "B3-subscribe-branches") -> None:
    """_subscribe_core decides live-vs-stopped and registers the observer in ONE locked region: a terminal notification
    running on another thread between the test and the registration would leave the observer on a dead subject."""
    m = cls.child("_subscribe_core")
    if m is None:
        return
    tests = [s for s in sites(m) if isinstance(s.node, (ast.If, ast.IfExp)) and any(
        isinstance(x, ast.Attribute) and dotted(x) == "self.is_stopped" for x in ast.walk(s.node.test))]
    apps = [s for s in sites(m) if isinstance(s.node, ast.Call) and dotted(s.node.func) == "self.observers.append"]
    par = m.module.parents
    def with_of(node):
        n = node
        while n is not None and n is not m.node:
            if isinstance(n, ast.With) and any(u(i.context_expr) == "self.lock" for i in n.items):
                return n
            n = par.get(n)
        return None
    ok = bool(tests) and bool(apps)
    for t in tests:
        for a in apps:
            wt, wa = with_of(t.node), with_of(a.node)
            ok = ok and wt is not None and wt is wa
    rep.ob(rule, m, f"{cls.name}._subscribe_core: is_stopped test and observers.append in one `with self.lock`", ok,
           f"{cls.name}._subscribe_core tests is_stopped and registers the observer in different (or no) locked regions: a "
           f"subscriber overtaken by on_completed / on_error between the two is appended to a terminated subject and never "
           f"receives the terminal notification (or the replayed value)")


STATE_FIELDS = ("exception", "value", "has_value", "is_stopped", "observers", "queue", "is_disposed")


def rule_locked_reads(rep: Report, cls: Fn, rule: str = "B3-subscribe-branches") -> int:
    """In `_subscribe_core` and the three `_on_*_core` methods every read of a state field of the subject happens inside
    `with self.lock` (decisions after the locked region use the locals snapshotted in it): a field re-read after the lock was
    released may have been reset by a dispose() from a handler or another thread."""
    n = 0
    for mname in ("_subscribe_core", "_on_next_core", "_on_error_core", "_on_completed_core"):
        m = cls.child(mname)
        if m is None:
            continue
        for s in sites(m):
            nd = s.node
            if isinstance(nd, ast.Attribute) and isinstance(nd.ctx, ast.Load) and isinstance(nd.value, ast.Name) and nd.value.id == "self" and nd.attr in STATE_FIELDS:
                n += 1
                rep.ob(rule, m, f"{cls.name}.{mname}: read of self.{nd.attr} in `{short(s.stmt, 50)}` under the lock", bool(s.ctx.locks),
                       f"{cls.name}.{mname} reads self.{nd.attr} after (or outside) its locked region: a dispose() issued from an observer's handler "
                       f"or another thread in between resets the field, and the notification decided / delivered here is the wrong one "
                       f"(an error replaced by None, an error path taken as the value path)")
    return n


def rule_delivery_argument(rep: Report, m: Fn, rule: str = "B2-state-before-callout") -> int:
    """What a delivery loop hands to each observer is the core's own parameter or a local snapshotted under the lock — never a
    field of the subject read inside the loop."""
    n = 0
    for lp, it, var, calls in delivery_loops(m):
        for c in calls:
            for a in c.args:
                n += 1
                bad = [x for x in ast.walk(a) if isinstance(x, ast.Attribute) and isinstance(x.value, ast.Name) and x.value.id == "self"]
                rep.ob(rule, m, f"{m.qual}: `{short(c, 50)}` delivers a parameter / locked snapshot", not bad,
                       f"{m.qual} hands `{u(a)}` to each observer: a field of the subject re-read during the fan-out, which an observer's handler "
                       f"(re-entrant on_next / dispose) may already have changed — later observers get a different notification from earlier ones")
    return n
