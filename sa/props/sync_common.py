"""Hazards of sources that call back synchronously, from inside `.subscribe(...)` (Subjects that replay on subscribe,
create() sources that emit at once, sources subscribed outside the trampoline).  Shared by C10, C11, C15, C19."""
from __future__ import annotations

import ast
from typing import List, Optional, Set

from ..astutil import call_name, dotted, short, u
from ..core import Report
from ..ctx import sites, dominates
from ..frontend import Fn
from ..model import is_subscribe_call, resolve_callable
from ..rules import locals_by_init


def _handlers_of(g: Fn, call: ast.Call) -> List[Fn]:
    out = []
    for a in list(call.args) + [k.value for k in call.keywords]:
        t = resolve_callable(g, a)
        while t.kind == "sync" and t.inner is not None:
            t = t.inner
        if t.kind == "fn" and t.fn is not None:
            out.append(t.fn)
    return out


def _reachable(h: Fn, depth: int = 3, seen: Optional[Set[Fn]] = None) -> List[Fn]:
    """h, the functions nested in it, and local functions they call (bounded)."""
    seen = seen if seen is not None else set()
    if h in seen or depth < 0:
        return []
    seen.add(h)
    out = [h]
    for g in h.walk():
        if not g.is_func:
            continue
        if g is not h and g not in seen:
            seen.add(g)
            out.append(g)
        for n in g.direct_nodes():
            if isinstance(n, ast.Call) and isinstance(n.func, ast.Name):
                k = g.resolve_local_def(n.func.id)
                if k is not None and k.is_func:
                    out += _reachable(k, depth - 1, seen)
    return out


def rule_no_serial_clobber(rep: Report, rule: str, root: Fn) -> int:
    """`S.disposable = X.subscribe(h, ...)` with S a SerialDisposable: if h (or what it calls) itself assigns
    S.disposable, a synchronous callback installs its continuation first and the outer assignment then replaces --
    and thereby disposes -- it.  The repo's idiom is a placeholder: `d = SingleAssignmentDisposable(); S.disposable = d;
    d.disposable = X.subscribe(...)`."""
    n = 0
    serials = []
    for f in root.walk():
        if f.is_func:
            for nm in locals_by_init(f, lambda v: isinstance(v, ast.Call) and call_name(v) == "SerialDisposable"):
                serials.append((f, nm))
    for owner, name in serials:
        for g in root.walk():
            if not g.is_func or g.owner(name) is not owner:
                continue
            for s in sites(g):
                st = s.node
                if not (isinstance(st, ast.Assign) and isinstance(st.targets[0], ast.Attribute) and st.targets[0].attr == "disposable"
                        and u(st.targets[0].value) == name):
                    continue
                from ..model import is_schedule_call as _isched
                calls = [c for c in ast.walk(st.value) if is_subscribe_call(c) or _isched(c)]
                for c in calls:
                    n += 1
                    bad = None
                    for h in _handlers_of(g, c):
                        for k in _reachable(h):
                            if k.owner(name) is not owner:
                                continue
                            for x in k.direct_nodes():
                                if isinstance(x, ast.Assign) and isinstance(x.targets[0], ast.Attribute) and x.targets[0].attr == "disposable" \
                                        and u(x.targets[0].value) == name:
                                    # a scheduled step that re-arms itself through the same serial is fine: when it ran inline every nested
                                    # step has finished before the outer store; what must not be replaced is a SUBSCRIPTION the step installed
                                    if not is_subscribe_call(c) and any(_isched(y) for y in ast.walk(x.value)):
                                        continue
                                    bad = (h, k, x)
                    rep.ob(rule, g, f"{root.qual}: `{short(st, 60)}` is not overwritten from its own callbacks", bad is None,
                           "" if bad is None else
                           f"`{short(st, 70)}` stores the handle only after the call returns, but the callback / scheduled action "
                           f"`{bad[0].name}` passed to it runs `{short(bad[2], 60)}` (in {bad[1].qual}). When the subscribed "
                           f"sequence calls back synchronously, the continuation installed by the callback is replaced -- and "
                           f"disposed -- by the outer assignment: the output is cut and never terminates")
    return n


def registrations(g: Fn, G: str, d: str):
    """sites in g that put holder `d` into group `G`: `G.add(d)` or `G = CompositeDisposable(..., d, ...)`"""
    out = []
    for a in sites(g):
        n = a.node
        if isinstance(n, ast.Call) and dotted(n.func) == f"{G}.add" and [u(v) for v in n.args] == [d]:
            out.append(a)
        if isinstance(n, (ast.Assign, ast.AnnAssign)) and n.value is not None and isinstance(n.value, ast.Call) and call_name(n.value) == "CompositeDisposable" \
                and u(n.targets[0] if isinstance(n, ast.Assign) else n.target) == G and d in [u(v) for v in n.value.args]:
            out.append(a)
    return out


def rule_registered_before_subscribe(rep: Report, rule: str, root: Fn) -> int:
    """A handler that unregisters its own subscription holder (`G.remove(d)`) requires `G.add(d)` to happen before the
    `.subscribe(` it is passed to: a synchronously terminating sequence otherwise removes the holder before it was
    added, and the holder added afterwards stays in G for ever (the all-inners-done test never succeeds / leak)."""
    n = 0
    for g in root.walk():
        if not g.is_func:
            continue
        for s in sites(g):
            c = s.node
            if not is_subscribe_call(c):
                continue
            for h in _handlers_of(g, c):
                for k in _reachable(h):
                    for x in k.direct_nodes():
                        if not (isinstance(x, ast.Call) and isinstance(x.func, ast.Attribute) and x.func.attr == "remove" and len(x.args) == 1
                                and isinstance(x.func.value, ast.Name) and isinstance(x.args[0], ast.Name)):
                            continue
                        G, d = x.func.value.id, x.args[0].id
                        if k.owner(d) is None or g.owner(d) is not k.owner(d) or g.owner(G) is not k.owner(G):
                            continue
                        n += 1
                        adds = registrations(g, G, d)
                        ok = bool(adds) and any(dominates(a, s) for a in adds)
                        rep.ob(rule, g, f"{root.qual}: {G}.add({d}) before `{short(c, 50)}` (its {h.name} does {G}.remove({d}))", ok,
                               f"{g.qual}: the callback `{h.name}` unregisters `{d}` from `{G}`, but `{G}.add({d})` does not happen "
                               f"before `{short(c, 60)}`: when the subscribed sequence terminates synchronously the removal finds "
                               f"nothing, the holder is added afterwards and is never removed (the completion test on `{G}` never "
                               f"succeeds)")
    return n


def _sync_lock(g: Fn) -> Optional[str]:
    for d in getattr(g.node, "decorator_list", []):
        if isinstance(d, ast.Call) and isinstance(d.func, ast.Name) and d.func.id == "synchronized" and d.args:
            return u(d.args[0])
    return None


# unlocked writes of otherwise lock-protected closure state present on the pinned tree (confirmed by reading; see DESIGN.md)
LOCK_EXEMPT = {
    ("reactivex/operators/_merge.py", "merge_.subscribe.on_next"):
        "merge(max_concurrent): the outer element handler updates the active counter without the lock (observation, not armed)",
}


def rule_locked_state_consistent(rep: Report, rule: str, root: Fn) -> int:
    """Closure state that some handler of this operator writes under the operator's lock is written under it by every
    handler, and a test of that state that decides such a write is made inside the same locked region (no
    check-then-act across the lock boundary)."""
    from ..rules import cell_name
    tree = [g for g in root.walk() if g.is_func and g is not root]
    writes = {}
    for g in tree:
        sl = _sync_lock(g)
        for s in sites(g):
            n = s.node
            if isinstance(n, (ast.Assign, ast.AugAssign)):
                t = n.targets[0] if isinstance(n, ast.Assign) else n.target
                cn = cell_name(t)
                o = g.owner(cn) if cn else None
                if o is not None and o.is_func and o is not g and (o is root or o in tree) and cn not in o.params:
                    locks = tuple(s.ctx.locks) + ((sl,) if sl else ())
                    writes.setdefault((id(o), cn), []).append((g, s, locks))
    n_ = 0
    for (oid, name), ws in writes.items():
        if not any(l for _, _, l in ws):
            continue
        for g, s, locks in ws:
            n_ += 1
            if (g.module.rel, g.qual) in LOCK_EXEMPT and not locks:
                rep.ob(rule, g, f"{g.qual}: `{short(s.node, 40)}` (observed: {LOCK_EXEMPT[(g.module.rel, g.qual)]})", True, nontrivial=False)
                continue
            rep.ob(rule, g, f"{g.qual}: `{short(s.node, 40)}` under the lock like the other writes of this state", bool(locks),
                   f"{g.qual} writes `{name}` outside the lock although the other handlers of {root.qual.split('.')[0]} write it under "
                   f"the lock: a handler running on another thread between the locked region and this write acts on the stale "
                   f"value (lost wake-up / lost update)")
            if locks:
                # check-then-act: guards that decide this locked write and read the same state must be inside the lock
                lock_nodes = [w for w in s.ctx.withs] if hasattr(s.ctx, "withs") else None
                for e, _p in s.ctx.guards:
                    if not any(isinstance(x, ast.Name) and x.id == name for x in ast.walk(e)):
                        continue
                    # the guard's If statement: is it inside a lock region?
                    test_site = next((t for t in sites(g) if isinstance(t.node, (ast.If, ast.While)) and any(y is e for y in ast.walk(t.node.test))), None)
                    if test_site is None:
                        continue
                    tl = tuple(test_site.ctx.locks) + ((_sync_lock(g),) if _sync_lock(g) else ())
                    rep.ob(rule, g, f"{g.qual}: test `{short(e, 40)}` and the write it decides are in one locked region", bool(tl),
                           f"{g.qual} tests `{name}` outside the lock and then updates it inside: two threads can both pass the test "
                           f"before either records its update (check-then-act), so both act")
    return n_


def _closure_reads(h: Fn, tree) -> Set:
    out = set()
    for k in _reachable(h):
        for n in k.direct_nodes():
            if isinstance(n, ast.Name) and isinstance(n.ctx, ast.Load):
                o = k.owner(n.id)
                if o is not None and o in tree and n.id not in o.params:
                    out.add((id(o), n.id))
    return out


def rule_state_before_subscribe(rep: Report, rule: str, root: Fn) -> int:
    """State that the callbacks handed to a `.subscribe(` read is set up *before* that subscribe call: the subscribed
    sequence may call back synchronously (a BehaviorSubject / replay / create() source), and would otherwise decide on
    the state of the previous element.  Every such write precedes its subscribe call on today's tree (139 instances)."""
    from ..rules import cell_name
    tree = [g for g in root.walk() if g.is_func]
    n = 0
    for g in tree:
        for s in sites(g):
            if not is_subscribe_call(s.node):
                continue
            rd = set()
            for h in _handlers_of(g, s.node):
                rd |= _closure_reads(h, tree)
            if not rd:
                continue
            for w in sites(g):
                if not isinstance(w.node, (ast.Assign, ast.AugAssign)) or w.stmt is s.stmt:
                    continue
                t = w.node.targets[0] if isinstance(w.node, ast.Assign) else w.node.target
                cn = cell_name(t)
                o = g.owner(cn) if cn else None
                if o is None or (id(o), cn) not in rd:
                    continue
                n += 1
                late = w.index > s.index and w.ctx.branch[:len(s.ctx.branch)] == s.ctx.branch and not w.ctx.loops
                rep.ob(rule, g, f"{g.qual}: `{short(w.node, 40)}` before `{short(s.node, 40)}`", not late,
                       f"{g.qual} updates `{cn}` only after `{short(s.node, 50)}`, whose callbacks read it: a sequence that signals "
                       f"synchronously from inside subscribe() is handled with the state of the previous element")
    return n
