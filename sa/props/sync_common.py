"""Hazards of sources that call back synchronously, from inside `.subscribe(...)` (Subjects that replay on subscribe,
create() sources that emit at once, sources subscribed outside the trampoline).  Shared by C10, C11, C15, C19."""
from __future__ import annotations

import ast
from typing import List, Optional, Set

from ..astutil import call_name, dotted, short, u
from ..core import Report
from ..ctx import sites, dominates
from ..frontend import Fn
from ..model import is_subscribe_call, resolve_callable
from ..rules import locals_by_init


def _handlers_of(g: Fn, call: ast.Call) -> List[Fn]:
    out = []
    for a in list(call.args) + [k.value for k in call.keywords]:
        t = resolve_callable(g, a)
        while t.kind == "sync" and t.inner is not None:
            t = t.inner
        if t.kind == "fn" and t.fn is not None:
            out.append(t.fn)
    return out


def _reachable(h: Fn, depth: int = 3, seen: Optional[Set[Fn]] = None) -> List[Fn]:
    """h, the functions nested in it, and local functions they call (bounded)."""
    seen = seen if seen is not None else set()
    if h in seen or depth < 0:
        return []
    seen.add(h)
    out = [h]
    for g in h.walk():
        if not g.is_func:
            continue
        if g is not h and g not in seen:
            seen.add(g)
            out.append(g)
        for n in g.direct_nodes():
            if isinstance(n, ast.Call) and isinstance(n.func, ast.Name):
                k = g.resolve_local_def(n.func.id)
                if k is not None and k.is_func:
                    out += _reachable(k, depth - 1, seen)
    return out


def rule_no_serial_clobber(rep: Report, rule: str, root: Fn) -> int:
    """`S.disposable = X.subscribe(h, ...)` with S a SerialDisposable: if h (or what it calls) itself assigns
    S.disposable, a synchronous callback installs its continuation first and the outer assignment then replaces --
    and thereby disposes -- it.  The repo's idiom is a placeholder: `d = SingleAssignmentDisposable(); S.disposable = d;
    d.disposable = X.subscribe(...)`."""
    n = 0
    serials = []
    for f in root.walk():
        if f.is_func:
            for nm in locals_by_init(f, lambda v: isinstance(v, ast.Call) and call_name(v) == "SerialDisposable"):
                serials.append((f, nm))
    for owner, name in serials:
        for g in root.walk():
            if not g.is_func or g.owner(name) is not owner:
                continue
            for s in sites(g):
                st = s.node
                if not (isinstance(st, ast.Assign) and isinstance(st.targets[0], ast.Attribute) and st.targets[0].attr == "disposable"
                        and u(st.targets[0].value) == name):
                    continue
                calls = [c for c in ast.walk(st.value) if is_subscribe_call(c)]
                for c in calls:
                    n += 1
                    bad = None
                    for h in _handlers_of(g, c):
                        for k in _reachable(h):
                            if k.owner(name) is not owner:
                                continue
                            for x in k.direct_nodes():
                                if isinstance(x, ast.Assign) and isinstance(x.targets[0], ast.Attribute) and x.targets[0].attr == "disposable" \
                                        and u(x.targets[0].value) == name:
                                    bad = (h, k, x)
                    rep.ob(rule, g, f"{root.qual}: `{short(st, 60)}` is not overwritten from its own callbacks", bad is None,
                           "" if bad is None else
                           f"`{short(st, 70)}` stores the subscription only after `.subscribe(...)` returns, but the callback "
                           f"`{bad[0].name}` passed to it runs `{short(bad[2], 60)}` (in {bad[1].qual}). When the subscribed "
                           f"sequence calls back synchronously, the continuation installed by the callback is replaced -- and "
                           f"disposed -- by the outer assignment: the output is cut and never terminates")
    return n


def rule_registered_before_subscribe(rep: Report, rule: str, root: Fn) -> int:
    """A handler that unregisters its own subscription holder (`G.remove(d)`) requires `G.add(d)` to happen before the
    `.subscribe(` it is passed to: a synchronously terminating sequence otherwise removes the holder before it was
    added, and the holder added afterwards stays in G for ever (the all-inners-done test never succeeds / leak)."""
    n = 0
    for g in root.walk():
        if not g.is_func:
            continue
        for s in sites(g):
            c = s.node
            if not is_subscribe_call(c):
                continue
            for h in _handlers_of(g, c):
                for k in _reachable(h):
                    for x in k.direct_nodes():
                        if not (isinstance(x, ast.Call) and isinstance(x.func, ast.Attribute) and x.func.attr == "remove" and len(x.args) == 1
                                and isinstance(x.func.value, ast.Name) and isinstance(x.args[0], ast.Name)):
                            continue
                        G, d = x.func.value.id, x.args[0].id
                        if k.owner(d) is None or g.owner(d) is not k.owner(d) or g.owner(G) is not k.owner(G):
                            continue
                        n += 1
                        adds = [a for a in sites(g) if isinstance(a.node, ast.Call) and dotted(a.node.func) == f"{G}.add"
                                and [u(v) for v in a.node.args] == [d]]
                        ok = bool(adds) and any(dominates(a, s) for a in adds)
                        rep.ob(rule, g, f"{root.qual}: {G}.add({d}) before `{short(c, 50)}` (its {h.name} does {G}.remove({d}))", ok,
                               f"{g.qual}: the callback `{h.name}` unregisters `{d}` from `{G}`, but `{G}.add({d})` does not happen "
                               f"before `{short(c, 60)}`: when the subscribed sequence terminates synchronously the removal finds "
                               f"nothing, the holder is added afterwards and is never removed (the completion test on `{G}` never "
                               f"succeeds)")
    return n
