"""Shared machinery for the operator-semantics clause properties (C05, C06, C10-C14, C16-C19):
typestate signatures (engines/typestate.py) compared with the hand-confirmed reference table
`typestate_ref.json`, plus per-property semantic constraints on the signatures."""
from __future__ import annotations

import ast
import json
import os
import re
from typing import Callable, Dict, Iterable, List, Optional

from ..astutil import call_name, short, u
from ..core import Report
from ..ctx import sites
from ..engines.typestate import signature
from ..frontend import AnalysisError, Fn, Repo
from ..model import is_schedule_call, model_of

_REF = None


def reference() -> Dict[str, Dict[str, Dict[str, str]]]:
    global _REF
    if _REF is None:
        with open(os.path.join(os.path.dirname(__file__), "typestate_ref.json")) as fh:
            _REF = json.load(fh)
    return _REF


def seqs(sig: str) -> List[str]:
    if sig.startswith("{") and sig.endswith("}"):
        return [x for x in sig[1:-1].split(",") if x != ""]
    return []


def normal(sig: str) -> List[str]:
    return [s for s in seqs(sig) if not s.endswith("!")]


def describe_diff(ref: str, got: str) -> str:
    a, b = set(seqs(ref)), set(seqs(got))
    if a or b:
        gone = sorted(a - b)
        new = sorted(b - a)
        parts = []
        if gone:
            parts.append(f"no longer possible: {gone}")
        if new:
            parts.append(f"new: {new}")
        return "; ".join(parts) or f"{ref} -> {got}"
    return f"{ref} -> {got}"


LEGEND = ("sequences of downstream calls per path: N/E/C = on_next/on_error/on_completed on the subscriber, n/e/c = on an "
          "inner subject / window / group, _ = nothing, ! = path through an exception edge; pass:X = the downstream "
          "method itself is the slot")


def check_operator(repo: Repo, rep: Report, rule: str, ref_key: str, why: Callable[[str, str], str]) -> Optional[Dict[str, Dict[str, str]]]:
    """Compare the signature of one subscribe function with the reference.  Returns the computed signature."""
    rel, dotted_ = ref_key.split("::")
    f = repo.fn(rel, dotted_)
    ref = reference().get(ref_key)
    if ref is None:
        raise AnalysisError(f"no reference signature for {ref_key}")
    got = signature(model_of(repo), f)
    if "F0-scheduler-forwarded" not in rep.rules:
        rep.rule("F0-scheduler-forwarded", "every subscription an operator makes on behalf of a subscriber passes that subscriber's "
                                           "scheduler on (virtual time reaches time-based inner / fallback / source sequences)", floor=1)
    rule_scheduler_forwarded(rep, "F0-scheduler-forwarded", f)
    discipline(rep, f)
    keys = sorted(set(ref) | set(got))
    for k in keys:
        r, g = ref.get(k), got.get(k)
        if r is None:
            rep.ob(rule, f, f"{k}: new subscription / timer", False,
                   f"{f.qual} now makes an additional subscription or schedules an additional action ({k}: {g}) that the "
                   f"confirmed structure of this operator does not have")
            continue
        if g is None:
            rep.ob(rule, f, f"{k}: {r}", False,
                   f"{f.qual} no longer makes the subscription / schedules the action `{k}` ({r}) its specified behaviour relies on")
            continue
        for slot in sorted(set(r) | set(g)):
            rs, gs = r.get(slot, "-"), g.get(slot, "-")
            rep.ob(rule, f, f"{k}.{slot} = {rs}", rs == gs,
                   f"{f.qual}: the {slot} slot of {k} changed its downstream behaviour ({describe_diff(rs, gs)}). "
                   + why(k, slot))
    return got


def no_scheduler(rep: Report, rule: str, f: Fn) -> None:
    sched = [s for g in f.walk() if g.is_func for s in sites(g) if is_schedule_call(s.node)]
    rep.ob(rule, f, "no scheduler used (outputs are emitted inside the source's own notification)", not sched,
           f"{f.qual} schedules work ({[short(s.node, 40) for s in sched]}): outputs are no longer emitted at the virtual "
           f"time of the input that determines them")


def downstream_sites(root: Fn, kinds=("on_next", "on_error", "on_completed")):
    """(function, site, kind) of every call on the downstream observer in the closure tree of root."""
    from ..astutil import dotted
    obs = root.params[0]
    out = []
    for g in root.walk():
        if not g.is_func:
            continue
        if g.owner(obs) is not root:
            continue
        for s in sites(g):
            n = s.node
            if isinstance(n, ast.Call) and isinstance(n.func, ast.Attribute) and isinstance(n.func.value, ast.Name) \
                    and n.func.value.id == obs and n.func.attr in kinds:
                out.append((g, s, n.func.attr))
    return out


def guards_text(s) -> List[str]:
    return [(u(e) if p else f"not ({u(e)})") for e, p in s.ctx.guards]


def composite_uses(repo: Repo, rep: Report, rule: str, table) -> None:
    for (rel, name), parts in table.items():
        f = repo.fn(rel, name)
        used = [call_name(n) for n in f.all_nodes() if isinstance(n, ast.Call)]
        missing = [p for p in parts if p not in used]
        rep.ob(rule, f, f"{name} uses {parts}", not missing, f"{name} is no longer defined through {missing}")


# subscribe sites that legitimately do not forward the subscription-time scheduler (confirmed by reading)
SCHED_EXEMPT = {
    ("reactivex/internal/utils.py", "add_ref.subscribe"):
        "add_ref is only applied to window Subjects (every call site passes a Subject local); a Subject ignores the scheduler",
    ("reactivex/observable/connectableobservable.py", "ConnectableObservable.auto_connect.subscribe"):
        "subscribes to the connectable's subject; a Subject ignores the scheduler",
    ("reactivex/observable/defer.py", "defer_.subscribe"):
        "failure path `throw(ex).subscribe(observer)`: throw's default scheduler delivers the error inside this call",
}


def scheduler_names(root: Fn) -> set:
    """The subscription-time scheduler of a subscribe function: its second parameter and every local derived from it
    (`_scheduler = scheduler or scheduler_ or TimeoutScheduler.singleton()`), transitively."""
    ps = [p for p in root.params if p != "self"]
    if len(ps) < 2:
        return set()
    names = {ps[1]}
    import ast as _ast
    for _ in range(3):
        for g in root.walk():
            if not g.is_func:
                continue
            for n in g.direct_nodes():
                if isinstance(n, (_ast.Assign, _ast.AnnAssign)) and n.value is not None:
                    if any(isinstance(x, _ast.Name) and x.id in names for x in _ast.walk(n.value)):
                        for t in (n.targets if isinstance(n, _ast.Assign) else [n.target]):
                            if isinstance(t, _ast.Name):
                                names.add(t.id)
    return names


def rule_scheduler_forwarded(rep: Report, rule: str, root: Fn) -> int:
    """Every `.subscribe(` made on behalf of a subscription passes the scheduler that subscription was made with, so
    time-based sources without a scheduler of their own run on it (virtual time under a TestScheduler)."""
    from ..model import is_subscribe_call
    names = scheduler_names(root)
    if not names:
        return 0
    n = 0
    # precedence: `explicit or subscribe-time or default` -- the scheduler given to the operator / factory wins over the one
    # given to subscribe() (25 of 25 sites on the pinned tree)
    ps = [p for p in root.params if p != "self"]
    sub_sched = ps[1]
    for g in root.walk():
        if not g.is_func:
            continue
        for nd in g.direct_nodes():
            if isinstance(nd, ast.BoolOp) and isinstance(nd.op, ast.Or) and any(isinstance(v, ast.Name) and v.id == sub_sched and g.owner(v.id) is root for v in nd.values):
                outer = [i for i, v in enumerate(nd.values) if isinstance(v, ast.Name) and g.owner(v.id) is not None and g.owner(v.id) is not root
                         and g.owner(v.id).is_func and v.id in g.owner(v.id).params]
                inner = [i for i, v in enumerate(nd.values) if isinstance(v, ast.Name) and v.id == sub_sched]
                if outer:
                    n += 1
                    rep.ob(rule, g, f"{root.qual}: `{short(nd, 60)}`: the operator's own scheduler takes precedence", max(outer) < min(inner),
                           f"{g.qual}: `{short(nd, 70)}` lets the scheduler passed to subscribe() override the scheduler the "
                           f"operator / factory was explicitly given: a sequence pinned to one scheduler runs on another timeline")
    for g in root.walk():
        if not g.is_func:
            continue
        for s in sites(g):
            c = s.node
            if not is_subscribe_call(c):
                continue
            n += 1
            if (g.module.rel, root.qual) in SCHED_EXEMPT:
                rep.ob(rule, g, f"{short(c, 60)} (exempt: {SCHED_EXEMPT[(g.module.rel, root.qual)]})", True, nontrivial=False)
                continue
            val = None
            for k in c.keywords:
                if k.arg == "scheduler":
                    val = k.value
            if val is None and len(c.args) >= 4:
                val = c.args[3]
            if val is None and len(c.args) == 2 and isinstance(c.args[1], ast.Name) and c.args[1].id in names:
                val = c.args[1]
            # inside a scheduled action the action's own first parameter is the scheduler that runs it
            local = set(names)
            h = g
            while h is not None and h is not root:
                if model_of(rep.repo).role.get(h) == "action" and h.params:
                    local.add(h.params[0])
                h = h.parent
            ok = val is not None and any(isinstance(x, ast.Name) and x.id in local for x in ast.walk(val))
            rep.ob(rule, g, f"{root.qual}: `{short(c, 70)}` forwards the subscription's scheduler", ok,
                   f"{g.qual}: `{short(c, 70)}` does not pass the scheduler this subscription was made with "
                   f"({'/'.join(sorted(names))}): a time-based source without a scheduler of its own falls back to its default "
                   f"(real-time) scheduler -- under a TestScheduler its notifications never appear in virtual time")
    return n


NEUTRAL_STAGES = {"as_observable"}      # identity stages: adding one does not change the sequence


def pipelines_of(f: Fn) -> List[List[str]]:
    """Operator-name lists of every `.pipe(...)` / `compose(...)` in f (nested functions included)."""
    out = []
    for n in f.all_nodes():
        if isinstance(n, ast.Call) and ((isinstance(n.func, ast.Attribute) and n.func.attr == "pipe")
                                        or (isinstance(n.func, ast.Name) and n.func.id in ("compose", "pipe"))):
            names = []
            for a in n.args:
                a2 = a
                # local alias: `scanner = ops.scan(...)` then `.pipe(scanner, ...)`
                if isinstance(a2, ast.Name):
                    for m in f.all_nodes():
                        if isinstance(m, (ast.Assign, ast.AnnAssign)) and m.value is not None and isinstance(m.value, ast.Call) \
                                and any(isinstance(t, ast.Name) and t.id == a2.id for t in (m.targets if isinstance(m, ast.Assign) else [m.target])):
                            a2 = m.value
                            break
                while isinstance(a2, ast.Call) and call_name(a2) == "cast" and len(a2.args) == 2:
                    a2 = a2.args[1]
                names.append(call_name(a2) if isinstance(a2, ast.Call) else u(a2))
            out.append([x for x in names if x not in NEUTRAL_STAGES])
    return out


def pipelines_exact(repo: Repo, rep: Report, rule: str, table) -> None:
    """The composite operator is *exactly* the documented pipeline(s): an extra stage (a filter, a distinct, a take)
    changes the elements although every documented component is still present."""
    for (rel, name), want in table.items():
        f = repo.fn(rel, name)
        got = pipelines_of(f)
        ok = sorted(got) == sorted(want)
        rep.ob(rule, f, f"{name} pipelines == {want}", ok,
               f"{name} is documented (and confirmed) as the pipeline(s) {want}; it now composes {got}: a stage was added, "
               f"removed or reordered, so its elements / termination differ from the composition it is specified as")


def discipline(rep: Report, f: Fn) -> None:
    """State-discipline rules every stateful operator of this code base follows (confirmed over the whole package; see
    sync_common / state_common): gate state before the downstream call it gates, callback state before the subscribe
    that may call back, lock-protected state always under the lock."""
    from . import state_common as SC
    from . import sync_common as SY
    for rid, text in (("G0-state-before-callout", "gate state is updated before the downstream on_next it gates (re-entrant sources)"),
                      ("G0-state-before-subscribe", "state read by the callbacks of a subscribe call is set before that call (synchronous sources)"),
                      ("G0-locked-state", "closure state written under the operator's lock is always written under it; no check-then-act across the lock")):
        if rid not in rep.rules:
            rep.rule(rid, text, floor=0)
    SC.rule_state_before_callout(rep, "G0-state-before-callout", f)
    SY.rule_state_before_subscribe(rep, "G0-state-before-subscribe", f)
    SY.rule_locked_state_consistent(rep, "G0-locked-state", f)


def rule_fanout_loops(rep: Report, rule: str, root: Fn) -> int:
    """A loop that fans a notification out over the open windows / groups (`for w in writers.values(): w.on_error(e)`)
    delivers it to the loop variable -- not to some other subject that happens to be in scope."""
    obs = root.params[0] if root.params else "observer"
    n = 0
    for g in root.walk():
        if not g.is_func:
            continue
        for nd in g.direct_nodes():
            if not isinstance(nd, ast.For) or not isinstance(nd.target, ast.Name):
                continue
            calls = [c for st in nd.body for c in ast.walk(st) if isinstance(c, ast.Call) and isinstance(c.func, ast.Attribute)
                     and c.func.attr in ("on_next", "on_error", "on_completed") and isinstance(c.func.value, ast.Name)]
            if not calls:
                continue
            for c in calls:
                n += 1
                recv = c.func.value.id
                # the loop variable is the receiver, or the value being replayed into one subject (`s.on_next(v)` for v in ...)
                ok = recv == nd.target.id or any(isinstance(x, ast.Name) and x.id == nd.target.id for a in c.args for x in ast.walk(a))
                rep.ob(rule, g, f"{g.qual}: `for {nd.target.id} in {short(nd.iter, 30)}` delivers `{short(c, 40)}` to the loop variable", ok,
                       f"{g.qual}: the loop over `{u(nd.iter)}` calls `{u(c.func)}` on `{recv}`, not on its loop variable "
                       f"`{nd.target.id}`: one subject receives the notification once per open window / group, the others never do")
    return n


_MUTATORS = {"append", "pop", "popleft", "remove", "clear", "insert", "extend", "appendleft", "popitem", "add", "discard", "update", "setdefault"}


def rule_no_mutation_while_iterating(rep: Report, rule: str, root: Fn) -> int:
    """A loop over a collection does not add to / remove from that collection in its own body (every other element
    would be skipped, or the iteration raises)."""
    n = 0
    for g in root.walk():
        if not g.is_func:
            continue
        for nd in g.direct_nodes():
            if not isinstance(nd, ast.For):
                continue
            it = nd.iter
            base = None
            if isinstance(it, ast.Name):
                base = it.id
            elif isinstance(it, ast.Call) and isinstance(it.func, ast.Attribute) and it.func.attr in ("values", "items", "keys") and isinstance(it.func.value, ast.Name):
                base = it.func.value.id
            if base is None:
                continue
            n += 1
            muts = []
            for st in nd.body:
                for x in ast.walk(st):
                    if isinstance(x, (ast.FunctionDef, ast.Lambda)):
                        continue
                    if isinstance(x, ast.Call) and isinstance(x.func, ast.Attribute) and x.func.attr in _MUTATORS and isinstance(x.func.value, ast.Name) and x.func.value.id == base:
                        muts.append(x)
                    if isinstance(x, ast.Delete) and any(isinstance(t, ast.Subscript) and isinstance(t.value, ast.Name) and t.value.id == base for t in x.targets):
                        muts.append(x)
            # a mutation directly followed by leaving the loop is fine (`del d[k]; break`)
            leaves = any(isinstance(st, (ast.Break, ast.Return)) for st in nd.body)
            rep.ob(rule, g, f"{g.qual}: `for {u(nd.target)} in {short(it, 30)}` does not change `{base}` in its body", not muts or leaves,
                   f"{g.qual} changes `{base}` ({[short(x, 30) for x in muts]}) inside the loop that iterates it: every other element is skipped "
                   f"(lists) or the iteration raises (dicts / deques) -- the skipped windows / groups never receive the notification")
    return n
