"""Shared machinery for the operator-semantics clause properties (C05, C06, C10-C14, C16-C19):
typestate signatures (engines/typestate.py) compared with the hand-confirmed reference table
`typestate_ref.json`, plus per-property semantic constraints on the signatures."""
from __future__ import annotations

import ast
import json
import os
import re
from typing import Callable, Dict, Iterable, List, Optional

from ..astutil import call_name, short, u
from ..core import Report
from ..ctx import sites
from ..engines.typestate import signature
from ..frontend import AnalysisError, Fn, Repo
from ..model import is_schedule_call, model_of

_REF = None


def reference() -> Dict[str, Dict[str, Dict[str, str]]]:
    global _REF
    if _REF is None:
        with open(os.path.join(os.path.dirname(__file__), "typestate_ref.json")) as fh:
            _REF = json.load(fh)
    return _REF


def seqs(sig: str) -> List[str]:
    if sig.startswith("{") and sig.endswith("}"):
        return [x for x in sig[1:-1].split(",") if x != ""]
    return []


def normal(sig: str) -> List[str]:
    return [s for s in seqs(sig) if not s.endswith("!")]


def describe_diff(ref: str, got: str) -> str:
    a, b = set(seqs(ref)), set(seqs(got))
    if a or b:
        gone = sorted(a - b)
        new = sorted(b - a)
        parts = []
        if gone:
            parts.append(f"no longer possible: {gone}")
        if new:
            parts.append(f"new: {new}")
        return "; ".join(parts) or f"{ref} -> {got}"
    return f"{ref} -> {got}"


LEGEND = ("sequences of downstream calls per path: N/E/C = on_next/on_error/on_completed on the subscriber, n/e/c = on an "
          "inner subject / window / group, _ = nothing, ! = path through an exception edge; pass:X = the downstream "
          "method itself is the slot")


def check_operator(repo: Repo, rep: Report, rule: str, ref_key: str, why: Callable[[str, str], str]) -> Optional[Dict[str, Dict[str, str]]]:
    """Compare the signature of one subscribe function with the reference.  Returns the computed signature."""
    rel, dotted_ = ref_key.split("::")
    f = repo.fn(rel, dotted_)
    ref = reference().get(ref_key)
    if ref is None:
        raise AnalysisError(f"no reference signature for {ref_key}")
    got = signature(model_of(repo), f)
    keys = sorted(set(ref) | set(got))
    for k in keys:
        r, g = ref.get(k), got.get(k)
        if r is None:
            rep.ob(rule, f, f"{k}: new subscription / timer", False,
                   f"{f.qual} now makes an additional subscription or schedules an additional action ({k}: {g}) that the "
                   f"confirmed structure of this operator does not have")
            continue
        if g is None:
            rep.ob(rule, f, f"{k}: {r}", False,
                   f"{f.qual} no longer makes the subscription / schedules the action `{k}` ({r}) its specified behaviour relies on")
            continue
        for slot in sorted(set(r) | set(g)):
            rs, gs = r.get(slot, "-"), g.get(slot, "-")
            rep.ob(rule, f, f"{k}.{slot} = {rs}", rs == gs,
                   f"{f.qual}: the {slot} slot of {k} changed its downstream behaviour ({describe_diff(rs, gs)}). "
                   + why(k, slot))
    return got


def no_scheduler(rep: Report, rule: str, f: Fn) -> None:
    sched = [s for g in f.walk() if g.is_func for s in sites(g) if is_schedule_call(s.node)]
    rep.ob(rule, f, "no scheduler used (outputs are emitted inside the source's own notification)", not sched,
           f"{f.qual} schedules work ({[short(s.node, 40) for s in sched]}): outputs are no longer emitted at the virtual "
           f"time of the input that determines them")


def downstream_sites(root: Fn, kinds=("on_next", "on_error", "on_completed")):
    """(function, site, kind) of every call on the downstream observer in the closure tree of root."""
    from ..astutil import dotted
    obs = root.params[0]
    out = []
    for g in root.walk():
        if not g.is_func:
            continue
        if g.owner(obs) is not root:
            continue
        for s in sites(g):
            n = s.node
            if isinstance(n, ast.Call) and isinstance(n.func, ast.Attribute) and isinstance(n.func.value, ast.Name) \
                    and n.func.value.id == obs and n.func.attr in kinds:
                out.append((g, s, n.func.attr))
    return out


def guards_text(s) -> List[str]:
    return [(u(e) if p else f"not ({u(e)})") for e, p in s.ctx.guards]


def composite_uses(repo: Repo, rep: Report, rule: str, table) -> None:
    for (rel, name), parts in table.items():
        f = repo.fn(rel, name)
        used = [call_name(n) for n in f.all_nodes() if isinstance(n, ast.Call)]
        missing = [p for p in parts if p not in used]
        rep.ob(rule, f, f"{name} uses {parts}", not missing, f"{name} is no longer defined through {missing}")
