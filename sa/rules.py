"""Reusable rule predicates over sites / guards."""
from __future__ import annotations

import ast
from typing import Callable, Iterable, List, Optional, Tuple

from .astutil import Atom, atoms, call_name, dotted, u, OPSTR, compare_norm
from .ctx import Ctx, Site, sites, dominates
from .frontend import Fn


def has_guard(ctx: Ctx, expr_text: str, pol: bool) -> bool:
    """A dominating guard says `expr_text` evaluated to `pol` (truthiness)."""
    for e, p in ctx.guards:
        if u(e) == expr_text and p == pol:
            return True
        # the one-element-cell spelling of the same state: asked for `flag`, guarded by `flag[0]`
        if p == pol and isinstance(e, ast.Subscript) and isinstance(e.value, ast.Name) and e.value.id == expr_text \
                and isinstance(e.slice, ast.Constant) and e.slice.value == 0:
            return True
        # `x is None` / `x is not None` / `x == False` forms are not truthiness guards
    return False


def guard_texts(ctx: Ctx) -> List[str]:
    return [(u(e) if p else f"not ({u(e)})") for e, p in ctx.guards]


def find_guard(ctx: Ctx, pred: Callable[[ast.AST, bool], bool]) -> Optional[Atom]:
    for e, p in ctx.guards:
        if pred(e, p):
            return (e, p)
    return None


def attr_calls(fn: Fn, obj: str, attrs: Optional[Iterable[str]] = None) -> List[Site]:
    """Call sites `obj.attr(...)` directly in fn."""
    out = []
    for s in sites(fn):
        n = s.node
        if isinstance(n, ast.Call) and isinstance(n.func, ast.Attribute) and dotted(n.func.value) == obj:
            if attrs is None or n.func.attr in attrs:
                out.append(s)
    return out


def assigns_to(fn: Fn, target_text: str) -> List[Site]:
    """Assignment statements (Assign/AnnAssign/AugAssign) whose target unparses to target_text."""
    out = []
    for s in sites(fn):
        n = s.node
        if isinstance(n, ast.Assign):
            for t in n.targets:
                for tt in (t.elts if isinstance(t, (ast.Tuple, ast.List)) else [t]):
                    if u(tt) == target_text:
                        out.append(s)
        elif isinstance(n, (ast.AnnAssign, ast.AugAssign)) and u(n.target) == target_text:
            if not (isinstance(n, ast.AnnAssign) and n.value is None):
                out.append(s)
    return out


def is_const(e: Optional[ast.AST], value) -> bool:
    return isinstance(e, ast.Constant) and e.value is value


def assigned_const(site: Site, value) -> bool:
    n = site.node
    return isinstance(n, (ast.Assign, ast.AnnAssign)) and is_const(n.value, value)


def first_stmt_sites(fn: Fn) -> List[Site]:
    return [s for s in sites(fn) if isinstance(s.node, ast.stmt)]


def in_lock(ctx: Ctx, lock_texts: Iterable[str]) -> bool:
    ls = set(lock_texts)
    return any(l in ls for l in ctx.locks)


def calls_named(fn: Fn, name: str) -> List[Site]:
    return [s for s in sites(fn) if isinstance(s.node, ast.Call) and call_name(s.node) == name]


def returns(fn: Fn) -> List[Site]:
    return [s for s in sites(fn) if isinstance(s.node, ast.Return)]


def self_attr_stores_from_params(init: Fn) -> dict:
    """In an __init__: {attr: set(param names flowing into it)} for `self.attr = <expr over params>`."""
    out = {}
    params = set(init.params)
    for s in sites(init):
        n = s.node
        if isinstance(n, (ast.Assign, ast.AnnAssign)) and n.value is not None:
            tgts = n.targets if isinstance(n, ast.Assign) else [n.target]
            for t in tgts:
                if isinstance(t, ast.Attribute) and isinstance(t.value, ast.Name) and t.value.id == "self":
                    used = {x.id for x in ast.walk(n.value) if isinstance(x, ast.Name)} & params
                    out.setdefault(t.attr, set()).update(used)
    return out


def locals_by_init(fn: Fn, pred: Callable[[ast.AST], bool]) -> List[str]:
    """Names of fn's own locals with an initialiser (any direct assignment in fn) satisfying pred(value).
    Role inference: checkers name closure state by what it is initialised to and how it is used, never by identifier."""
    out: List[str] = []
    for n in fn.direct_nodes():
        if isinstance(n, (ast.Assign, ast.AnnAssign)) and n.value is not None:
            ts = n.targets if isinstance(n, ast.Assign) else [n.target]
            v = n.value
            # closure state is spelled either `x = v` (+ nonlocal) or as a one-element list cell `x = [v]`
            hit = pred(v) or (isinstance(v, ast.List) and len(v.elts) == 1 and pred(v.elts[0]))
            for t in ts:
                if isinstance(t, ast.Name) and hit and t.id not in out:
                    out.append(t.id)
    return out


def uc(e: Optional[ast.AST]) -> str:
    """unparse with one-element-cell reads `x[0]` written as `x` (the two spellings of closure state agree)"""
    import re as _re
    from .astutil import u as _u
    return _re.sub(r"\b([A-Za-z_]\w*)\[0\]", r"\1", _u(e))


def cell_name(e: ast.AST) -> Optional[str]:
    """`x` or `x[0]` -> 'x' (closure state is kept in plain nonlocals or one-element lists)."""
    if isinstance(e, ast.Subscript) and isinstance(e.value, ast.Name):
        return e.value.id
    if isinstance(e, ast.Name):
        return e.id
    return None


def names_assigned_const(fn: Fn, value) -> List[str]:
    """Cells (x / x[0]) that fn assigns the constant `value`."""
    out: List[str] = []
    for n in fn.direct_nodes():
        if isinstance(n, ast.Assign) and isinstance(n.value, ast.Constant) and n.value.value is value:
            for t in n.targets:
                c = cell_name(t)
                if c and c not in out:
                    out.append(c)
    return out


def names_augmented(fn: Fn, op) -> List[str]:
    out: List[str] = []
    for n in fn.direct_nodes():
        if isinstance(n, ast.AugAssign) and isinstance(n.op, op):
            if isinstance(n.value, ast.Constant) and n.value.value == 0:
                continue        # `x += 0` advances nothing: it does not make x a counter / an id
            c = cell_name(n.target)
            if c and c not in out:
                out.append(c)
    return out


def named_conditions(fn: Fn) -> dict:
    """local name -> the boolean expression it names, for locals assigned exactly once in fn from a comparison /
    and-or / not expression (`emit = flag and a == b`).  Naming a decision is a behaviour-preserving edit: rules that
    inspect a test look through such names."""
    defs, counts = {}, {}
    for n in fn.direct_nodes():
        tg = val = None
        if isinstance(n, ast.Assign) and len(n.targets) == 1 and isinstance(n.targets[0], ast.Name):
            tg, val = n.targets[0].id, n.value
        elif isinstance(n, ast.AnnAssign) and isinstance(n.target, ast.Name) and n.value is not None:
            tg, val = n.target.id, n.value
        elif isinstance(n, (ast.AugAssign, ast.NamedExpr)) and isinstance(getattr(n, "target", None), ast.Name):
            counts[n.target.id] = counts.get(n.target.id, 0) + 2
        if tg is not None:
            counts[tg] = counts.get(tg, 0) + 1
            defs[tg] = val
    nl = set()
    for n in fn.direct_nodes():
        if isinstance(n, (ast.Nonlocal, ast.Global)):
            nl |= set(n.names)
    return {k: v for k, v in defs.items() if counts.get(k) == 1 and k not in fn.params and k not in nl
            and (isinstance(v, (ast.BoolOp, ast.Compare)) or (isinstance(v, ast.UnaryOp) and isinstance(v.op, ast.Not))
                 or (isinstance(v, ast.Call) and isinstance(v.func, ast.Name) and v.func.id in ("any", "all")))}


def named_predicates(fn: Fn) -> dict:
    """zero-argument closures visible from fn whose whole body is `return <boolean expression>` (`def is_current(): return
    latest == _id`): naming a guard as a predicate is a behaviour-preserving edit; rules that inspect a test look through it."""
    out = {}
    scope = fn
    while scope is not None:
        for c in scope.children:
            if c.is_func and not c.params and c.name not in out:
                body = [b for b in c.node.body if not (isinstance(b, ast.Expr) and isinstance(b.value, ast.Constant))]
                if len(body) == 1 and isinstance(body[0], ast.Return) and isinstance(body[0].value, (ast.Compare, ast.BoolOp, ast.UnaryOp)):
                    out[c.name] = body[0].value
        scope = scope.parent if scope.parent is not None and scope.parent.is_func else None
    return out


def effective_test(fn: Fn, test: ast.AST, depth: int = 3) -> ast.AST:
    """`test` with named conditions (and zero-argument predicate closures) replaced by the expressions they name."""
    preds = named_predicates(fn) if any(isinstance(x, ast.Call) and isinstance(x.func, ast.Name) and not x.args and not x.keywords for x in ast.walk(test)) else {}
    if preds and depth > 0:
        import copy as _copy

        class _P(ast.NodeTransformer):
            def visit_Call(self, n):
                if isinstance(n.func, ast.Name) and n.func.id in preds and not n.args and not n.keywords:
                    return _copy.deepcopy(preds[n.func.id])
                return self.generic_visit(n)
        test = _P().visit(_copy.deepcopy(test))
    defs = named_conditions(fn)
    if not defs or depth <= 0 or not any(isinstance(x, ast.Name) and x.id in defs for x in ast.walk(test)):
        return test
    import copy

    class _S(ast.NodeTransformer):
        def visit_Name(self, n):
            if isinstance(n.ctx, ast.Load) and n.id in defs:
                return copy.deepcopy(defs[n.id])
            return n
    return effective_test(fn, _S().visit(copy.deepcopy(test)), depth - 1)


def eval3(test: ast.AST, val: Callable[[ast.AST], Optional[bool]]) -> Optional[bool]:
    """Three-valued truth of `test` when `val` gives the truth (True / False / None = unknown) of its leaves."""
    if isinstance(test, ast.BoolOp):
        vs = [eval3(v, val) for v in test.values]
        if isinstance(test.op, ast.Or):
            return True if any(v is True for v in vs) else (False if all(v is False for v in vs) else None)
        return False if any(v is False for v in vs) else (True if all(v is True for v in vs) else None)
    if isinstance(test, ast.UnaryOp) and isinstance(test.op, ast.Not):
        v = eval3(test.operand, val)
        return None if v is None else (not v)
    return val(test)


def guards_hold_when(fn: Fn, ctx: Ctx, val: Callable[[ast.AST], Optional[bool]]) -> bool:
    """True iff every guard of the site is decided — in the site's favour — by the leaf valuation `val` alone."""
    return all(eval3(effective_test(fn, e), val) is pol for e, pol in ctx.guards)


def expanded_guards(fn: Fn, ctx: Ctx) -> List[Atom]:
    """The site's guards with named conditions looked through and split into atoms again."""
    out: List[Atom] = []
    for e, pol in ctx.guards:
        out += atoms(effective_test(fn, e), pol)
    return out


def conditional_defs(fn: Fn, is_target: Callable[[ast.AST], bool]) -> List[Tuple[Site, ast.AST, List[Atom]]]:
    """(site, value, facts) for every way `fn` defines a target: one entry per plain assignment (facts = its guards, named
    conditions looked through) and two per `t = a if c else b` (the guards plus c / not c).  `if c: t = a else: t = b` and
    the conditional expression are the same definition; rules over "what is t when ..." read both through this."""
    out = []
    for s in sites(fn):
        n = s.node
        if isinstance(n, ast.Assign) and len(n.targets) == 1 and is_target(n.targets[0]):
            g = expanded_guards(fn, s.ctx)
            if isinstance(n.value, ast.IfExp):
                out.append((s, n.value.body, g + atoms(n.value.test, True)))
                out.append((s, n.value.orelse, g + atoms(n.value.test, False)))
            else:
                out.append((s, n.value, g))
    return out


def assigned_expr(n: ast.AST) -> Optional[ast.AST]:
    """The value a (front-end normalised) assignment gives its target: `x = e` -> e; `x += e` -> `x + e`."""
    if isinstance(n, ast.Assign):
        return n.value
    if isinstance(n, ast.AugAssign):
        import copy
        left = copy.deepcopy(n.target)
        left.ctx = ast.Load()
        return ast.BinOp(left=left, op=n.op, right=n.value)
    return None


def assign_target(n: ast.AST) -> Optional[ast.AST]:
    if isinstance(n, ast.Assign) and len(n.targets) == 1:
        return n.targets[0]
    if isinstance(n, ast.AugAssign):
        return n.target
    return None


def names_stepped_by_one(fn: Fn) -> List[str]:
    """counters: names (or cells) updated by `+= 1`"""
    out: List[str] = []
    for n in fn.direct_nodes():
        if isinstance(n, ast.AugAssign) and isinstance(n.op, ast.Add) and isinstance(n.value, ast.Constant) and n.value.value == 1 \
                and type(n.value.value) is int:
            c = cell_name(n.target)
            if c and c not in out:
                out.append(c)
    return out



def inline_locals(fn: Fn, e: Optional[ast.AST], depth: int = 2) -> Optional[ast.AST]:
    """`e` with every local of fn that is assigned exactly once (not a parameter, not nonlocal / global, not augmented) replaced by
    the value it names: giving a sub-expression a name is a behaviour-preserving edit when nothing is evaluated in between that the
    expression depends on; rules that match the shape of an argument look through such names."""
    if e is None or depth <= 0:
        return e
    defs, counts = {}, {}
    nl = set()
    for n in fn.direct_nodes():
        if isinstance(n, ast.Assign) and len(n.targets) == 1 and isinstance(n.targets[0], ast.Name):
            counts[n.targets[0].id] = counts.get(n.targets[0].id, 0) + 1
            defs[n.targets[0].id] = n.value
        elif isinstance(n, (ast.AugAssign, ast.NamedExpr, ast.For)) and isinstance(getattr(n, "target", None), ast.Name):
            counts[n.target.id] = counts.get(n.target.id, 0) + 2
        elif isinstance(n, (ast.Nonlocal, ast.Global)):
            nl |= set(n.names)
    ok = {k: v for k, v in defs.items() if counts.get(k) == 1 and k not in fn.params and k not in nl}
    if not ok or not any(isinstance(x, ast.Name) and x.id in ok for x in ast.walk(e)):
        return e
    import copy

    class _S(ast.NodeTransformer):
        def visit_Name(self, n):
            if isinstance(n.ctx, ast.Load) and n.id in ok:
                return copy.deepcopy(ok[n.id])
            return n
    return inline_locals(fn, _S().visit(copy.deepcopy(e)), depth - 1)
