"""CLI: python -m sa.run <Cxx> [quick|thorough|replay <path>]

exit 0: property held on everything analysed (KNOWN-FINDING lines possible)
exit 1: VIOLATION property=<id> replay=<path> for a violation not in known_findings.json
exit 2: ANALYSIS-ERROR (the analyser could not do its job; never a silent pass)
"""
from __future__ import annotations

import importlib
import json
import os
import sys
import time
import traceback


def main(argv) -> int:
    if len(argv) < 2:
        print("usage: run.py <Cxx> [quick|thorough|replay <path>]")
        return 2
    prop = argv[1]
    mode = argv[2] if len(argv) > 2 else os.environ.get("VERIF_TIER", "quick")
    replay = argv[3] if mode == "replay" and len(argv) > 3 else None
    tier = "thorough" if mode == "thorough" else "quick"
    try:
        seed = int(os.environ.get("VERIF_SEED", "0") or 0)
    except ValueError:
        seed = 0
    t0 = time.time()
    try:
        from . import core, frontend
        from .model import front_summary
        repo = frontend.Repo()
        rep = core.Report(prop, tier, repo)
        mod = importlib.import_module(f"sa.props.{prop}")
        mod.check(repo, rep)
        rep.check_floors()
        known = core.load_known()
        unlisted, known_hits = [], []
        for v in rep.violations:
            k = core.match_known(v, known)
            if k is not None:
                known_hits.append(f"{v.rule} @ {v.where} :: {v.construct}")
                print(f"KNOWN-FINDING: property={prop} {k.get('what', v.detail)} [{v.rule} @ {v.where}]")
            else:
                unlisted.append(v)
        if replay:
            with open(replay) as fh:
                want = json.load(fh)["key"]
            unlisted = [v for v in unlisted if v.key == want]
        front = front_summary(repo)
        wall = time.time() - t0
        core.write_evidence(rep, seed, wall, len(unlisted), known_hits, front)
        for v in unlisted:
            path = core.write_violation(v)
            print(f"VIOLATION property={prop} replay={path}")
            print(f"  rule={v.rule} where={v.where}\n  construct: {v.construct}\n  detail: {v.detail}")
        print(f"{prop} [{tier}] obligations={rep.obligations} discharged={rep.discharged} "
              f"violations={len(unlisted)} known={len(known_hits)} wall={wall:.2f}s")
        return 1 if unlisted else 0
    except Exception as e:  # noqa: BLE001
        name = type(e).__name__
        print(f"ANALYSIS-ERROR property={prop}: {name}: {e}")
        if name != "AnalysisError":
            traceback.print_exc()
        return 2


if __name__ == "__main__":
    sys.exit(main(sys.argv))
