"""CLI: python -m sa.run <Cxx> [quick|thorough|replay <path>]

exit 0: property held on everything analysed (KNOWN-FINDING lines possible)
exit 1: VIOLATION property=<id> replay=<path> for a violation not in known_findings.json
exit 2: ANALYSIS-ERROR (the analyser could not do its job; never a silent pass)
"""
from __future__ import annotations

import importlib
import json
import os
import sys
import time
import traceback


def main(argv) -> int:
    if len(argv) < 2:
        print("usage: run.py <Cxx> [quick|thorough|replay <path>]")
        return 2
    prop = argv[1]
    mode = argv[2] if len(argv) > 2 else os.environ.get("VERIF_TIER", "quick")
    replay = argv[3] if mode == "replay" and len(argv) > 3 else None
    tier = "thorough" if mode == "thorough" else "quick"
    try:
        seed = int(os.environ.get("VERIF_SEED", "0") or 0)
    except ValueError:
        seed = 0
    t0 = time.time()
    try:
        from . import core, frontend
        from .model import front_summary
        repo = frontend.Repo()
        rep = core.Report(prop, tier, repo)
        mod = importlib.import_module(f"sa.props.{prop}")
        core.run_check(mod, repo, rep)
        known = core.load_known()
        unlisted, known_hits = [], []
        for v in rep.violations:
            k = core.match_known(v, known)
            if k is not None:
                known_hits.append(f"{v.rule} @ {v.where} :: {v.construct}")
                print(f"KNOWN-FINDING: property={prop} {k.get('what', v.detail)} [{v.rule} @ {v.where}]")
            else:
                unlisted.append(v)
        if replay:
            with open(replay) as fh:
                want = json.load(fh)["key"]
            unlisted = [v for v in unlisted if v.key == want]
        front = front_summary(repo)
        if tier == "thorough" and not replay:
            st = _selftest(prop)
            rep.extra["selftest"] = st
            inv = _refactor_invariance(prop) if not unlisted else {"skipped": "the tree already violates the property"}
            rep.extra["refactor_invariance"] = inv
            noisy = [k for k, v in inv.items() if isinstance(v, str) and v.startswith("NOT SILENT")]
            if noisy and not unlisted:
                print(f"ANALYSIS-ERROR property={prop}: the check raises an alarm on behaviour-preserving transformations of the current tree: {noisy}")
                wall = time.time() - t0
                core.write_evidence(rep, seed, wall, 0, known_hits, front)
                return 2
            if st.get("failed") and not unlisted:
                # the checker lost detection power (or raises a false alarm) on its own mutant catalogue
                print(f"ANALYSIS-ERROR property={prop}: self-test regression: {st['failed']}")
                wall = time.time() - t0
                core.write_evidence(rep, seed, wall, 0, known_hits, front)
                return 2
        wall = time.time() - t0
        core.write_evidence(rep, seed, wall, len(unlisted), known_hits, front)
        for v in unlisted:
            path = core.write_violation(v)
            print(f"VIOLATION property={prop} replay={path}")
            print(f"  rule={v.rule} where={v.where}\n  construct: {v.construct}\n  detail: {v.detail}")
        print(f"{prop} [{tier}] obligations={rep.obligations} discharged={rep.discharged} "
              f"violations={len(unlisted)} known={len(known_hits)} wall={wall:.2f}s")
        return 1 if unlisted else 0
    except Exception as e:  # noqa: BLE001
        name = type(e).__name__
        print(f"ANALYSIS-ERROR property={prop}: {name}: {e}")
        if name != "AnalysisError":
            traceback.print_exc()
        return 2


def _refactor_invariance(prop):
    """Thorough tier: apply each behaviour-preserving whole-tree transformation (tools/refactor_sweep.py) to a scratch copy
    of the current tree and re-run this property's quick check on it; it must stay silent (exit 0)."""
    import shutil
    import subprocess
    import tempfile
    from concurrent.futures import ThreadPoolExecutor
    here = os.path.dirname(os.path.dirname(os.path.abspath(__file__)))
    sys.path.insert(0, os.path.join(here, "tools"))
    try:
        import refactor_sweep as rs
    except Exception as e:  # noqa: BLE001
        return {"skipped": f"refactor_sweep not importable ({type(e).__name__})"}
    from . import frontend
    # seven single transformations and two chains of ten (annotations, keyword / positional arguments, augmented assignments,
    # conditional expressions, log lines, private attribute names, ... applied on top of one another)
    kinds = ["unparse", "flipcmp", "invertif", "rename3", "extractcond", "cellify", "earlyreturn", "combo", "combo2"]

    def one(kind):
        tmp = tempfile.mkdtemp(prefix="rxsa_inv_")
        try:
            shutil.copytree(os.path.join(frontend.REPO_ROOT, "reactivex"), os.path.join(tmp, "reactivex"), ignore=shutil.ignore_patterns("__pycache__"))
            try:
                rs.transform(tmp, kind)
            except Exception as e:  # noqa: BLE001
                return kind, f"skipped: transformation failed ({type(e).__name__}: {e})"[:200]
            env = dict(os.environ, RXSA_REPO=tmp, RXSA_EVID_DIR=os.path.join(tmp, "evidence"), VERIF_TIER="quick")
            p = subprocess.run([sys.executable, "-m", "sa.run", prop, "quick"], cwd=here, env=env, capture_output=True, text=True)
            if p.returncode == 0:
                return kind, "silent"
            last = [l for l in p.stdout.splitlines() if l.startswith(("VIOLATION", "ANALYSIS-ERROR", "  rule="))][:3]
            return kind, f"NOT SILENT (exit {p.returncode}): {' | '.join(last)}"[:300]
        finally:
            shutil.rmtree(tmp, ignore_errors=True)
    with ThreadPoolExecutor(max_workers=9) as ex:
        return dict(ex.map(one, kinds))


def _selftest(prop):
    """Thorough tier: run this property's catalogue of must-fire mutants / must-stay-silent refactors against scratch
    copies of the current tree (16-way parallel).  Cases whose text edit no longer applies are counted as skipped."""
    from concurrent.futures import ThreadPoolExecutor
    try:
        from .selftest import harness
        cases = harness.load_cases([prop])
    except Exception as e:  # noqa: BLE001
        return {"cases": 0, "note": f"no self-test catalogue ({type(e).__name__})"}
    res = {"cases": len(cases), "must_fire_detected": 0, "must_stay_silent_ok": 0, "skipped_not_applicable": 0, "failed": []}
    if not cases:
        return res
    with ThreadPoolExecutor(max_workers=16) as ex:
        for c, status, msg in ex.map(harness.run_case, cases):
            if status == "ok":
                res["must_fire_detected" if c["expect"] == "fire" else "must_stay_silent_ok"] += 1
            elif status == "BROKEN":
                res["skipped_not_applicable"] += 1
            else:
                res["failed"].append(f"{c['id']} ({c['expect']}): {c.get('desc', '')}: {msg[:160]}")
    return res


if __name__ == "__main__":
    sys.exit(main(sys.argv))
