"""CLI: python -m sa.run <Cxx> [quick|thorough|replay <path>]

exit 0: property held on everything analysed (KNOWN-FINDING lines possible)
exit 1: VIOLATION property=<id> replay=<path> for a violation not in known_findings.json
exit 2: ANALYSIS-ERROR (the analyser could not do its job; never a silent pass)
"""
from __future__ import annotations

import importlib
import json
import os
import sys
import time
import traceback


def main(argv) -> int:
    if len(argv) < 2:
        print("usage: run.py <Cxx> [quick|thorough|replay <path>]")
        return 2
    prop = argv[1]
    mode = argv[2] if len(argv) > 2 else os.environ.get("VERIF_TIER", "quick")
    replay = argv[3] if mode == "replay" and len(argv) > 3 else None
    tier = "thorough" if mode == "thorough" else "quick"
    try:
        seed = int(os.environ.get("VERIF_SEED", "0") or 0)
    except ValueError:
        seed = 0
    t0 = time.time()
    try:
        from . import core, frontend
        from .model import front_summary
        repo = frontend.Repo()
        rep = core.Report(prop, tier, repo)
        mod = importlib.import_module(f"sa.props.{prop}")
        mod.check(repo, rep)
        rep.check_floors()
        known = core.load_known()
        unlisted, known_hits = [], []
        for v in rep.violations:
            k = core.match_known(v, known)
            if k is not None:
                known_hits.append(f"{v.rule} @ {v.where} :: {v.construct}")
                print(f"KNOWN-FINDING: property={prop} {k.get('what', v.detail)} [{v.rule} @ {v.where}]")
            else:
                unlisted.append(v)
        if replay:
            with open(replay) as fh:
                want = json.load(fh)["key"]
            unlisted = [v for v in unlisted if v.key == want]
        front = front_summary(repo)
        if tier == "thorough" and not replay:
            st = _selftest(prop)
            rep.extra["selftest"] = st
            if st.get("failed") and not unlisted:
                # the checker lost detection power (or raises a false alarm) on its own mutant catalogue
                print(f"ANALYSIS-ERROR property={prop}: self-test regression: {st['failed']}")
                wall = time.time() - t0
                core.write_evidence(rep, seed, wall, 0, known_hits, front)
                return 2
        wall = time.time() - t0
        core.write_evidence(rep, seed, wall, len(unlisted), known_hits, front)
        for v in unlisted:
            path = core.write_violation(v)
            print(f"VIOLATION property={prop} replay={path}")
            print(f"  rule={v.rule} where={v.where}\n  construct: {v.construct}\n  detail: {v.detail}")
        print(f"{prop} [{tier}] obligations={rep.obligations} discharged={rep.discharged} "
              f"violations={len(unlisted)} known={len(known_hits)} wall={wall:.2f}s")
        return 1 if unlisted else 0
    except Exception as e:  # noqa: BLE001
        name = type(e).__name__
        print(f"ANALYSIS-ERROR property={prop}: {name}: {e}")
        if name != "AnalysisError":
            traceback.print_exc()
        return 2


def _selftest(prop):
    """Thorough tier: run this property's catalogue of must-fire mutants / must-stay-silent refactors against scratch
    copies of the current tree (16-way parallel).  Cases whose text edit no longer applies are counted as skipped."""
    from concurrent.futures import ThreadPoolExecutor
    try:
        from .selftest import harness
        cases = harness.load_cases([prop])
    except Exception as e:  # noqa: BLE001
        return {"cases": 0, "note": f"no self-test catalogue ({type(e).__name__})"}
    res = {"cases": len(cases), "must_fire_detected": 0, "must_stay_silent_ok": 0, "skipped_not_applicable": 0, "failed": []}
    if not cases:
        return res
    with ThreadPoolExecutor(max_workers=16) as ex:
        for c, status, msg in ex.map(harness.run_case, cases):
            if status == "ok":
                res["must_fire_detected" if c["expect"] == "fire" else "must_stay_silent_ok"] += 1
            elif status == "BROKEN":
                res["skipped_not_applicable"] += 1
            else:
                res["failed"].append(f"{c['id']} ({c['expect']}): {c.get('desc', '')}: {msg[:160]}")
    return res


if __name__ == "__main__":
    sys.exit(main(sys.argv))
