#!/bin/sh
# usage: sh sa/run.sh <Cxx> <quick|thorough|replay> [path]
cd "$(dirname "$0")/.." || exit 2
if [ -x /venv/bin/python ]; then PY=/venv/bin/python; else PY=python3; fi
PYTHONDONTWRITEBYTECODE=1 exec "$PY" -m sa.run "$@"
