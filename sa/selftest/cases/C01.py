ADO = "reactivex/observer/autodetachobserver.py"
OBR = "reactivex/observer/observer.py"
OBS = "reactivex/observable/observable.py"
SUBJ = "reactivex/subject/subject.py"
CASES = [
    dict(expect="fire", desc="drop is_stopped guard in AutoDetachObserver.on_next", names="R3-guard", edits=[dict(file=ADO,
         old="    def on_next(self, value: _T_in) -> None:\n        if self.is_stopped:\n            return\n",
         new="    def on_next(self, value: _T_in) -> None:\n")]),
    dict(expect="fire", desc="flag set after callback in on_completed", names="R3-flag-first", edits=[dict(file=ADO,
         old="        self.is_stopped = True\n\n        try:\n            self._on_completed()\n        finally:\n            self.dispose()",
         new="        try:\n            self._on_completed()\n        finally:\n            self.is_stopped = True\n            self.dispose()")]),
    dict(expect="fire", desc="pass raw observer to _subscribe_core", names="R1-wrap", edits=[dict(file=OBS,
         old="subscriber = self._subscribe_core(auto_detach_observer, scheduler)",
         new="subscriber = self._subscribe_core(obv if False else auto_detach_observer._on_next and auto_detach_observer, scheduler)")]),
    dict(expect="fire", desc="Observer.on_error sets flag after core", names="R3-flag-first", edits=[dict(file=OBR,
         old="            self.is_stopped = True\n            self._on_error_core(error)",
         new="            self._on_error_core(error)\n            self.is_stopped = True", count=1)]),
    dict(expect="fire", desc="Subject.on_next bypasses super", names="R5-override", edits=[dict(file=SUBJ,
         old="        super().on_next(value)", new="        self._on_next_core(value)")]),
    dict(expect="fire", desc="always re-raise in set_disposable", names="R4-fail", edits=[dict(file=OBS,
         old="                if not auto_detach_observer.fail(ex):\n                    raise",
         new="                auto_detach_observer.fail(ex)\n                raise")]),
    dict(expect="fire", desc="dispose does not stop", names="R3-dispose-stops", edits=[dict(file=ADO,
         old="    def dispose(self) -> None:\n        self.is_stopped = True\n", new="    def dispose(self) -> None:\n")]),
    dict(expect="silent", desc="invert guard style in AutoDetachObserver.on_next", edits=[dict(file=ADO,
         old="        if self.is_stopped:\n            return\n        self._on_next(value)",
         new="        if not self.is_stopped:\n            self._on_next(value)")]),
    dict(expect="silent", desc="Observer.on_error early-return style", edits=[dict(file=OBR,
         old="        if not self.is_stopped:\n            self.is_stopped = True\n            self._on_error_core(error)",
         new="        if self.is_stopped:\n            return\n        self.is_stopped = True\n        self._on_error_core(error)", count=1)]),
    dict(expect="fire", desc="seed C09-r3/2: fail() disposes before testing is_stopped", names="R3-guard", edits=[dict(file="reactivex/observer/autodetachobserver.py",
         old="    def fail(self, exn: Exception) -> bool:\n        if self.is_stopped:", new="    def fail(self, exn: Exception) -> bool:\n        self.dispose()\n\n        if self.is_stopped:")]),
]
