MERGE = "reactivex/operators/_merge.py"
CATCH = "reactivex/observable/catch.py"
WWC = "reactivex/operators/_windowwithcount.py"
GBU = "reactivex/operators/_groupbyuntil.py"
ADO = "reactivex/observer/autodetachobserver.py"
DELAY = "reactivex/operators/_delay.py"
SW = "reactivex/operators/_switchlatest.py"
CASES = [
    dict(expect="fire", desc="merge_all drops group.add(inner_subscription)", names="merge_all_", edits=[dict(file=MERGE,
         old="            inner_subscription = SingleAssignmentDisposable()\n            group.add(inner_subscription)\n",
         new="            inner_subscription = SingleAssignmentDisposable()\n")]),
    dict(expect="fire", desc="catch returns composite without cancelable", names="catch_with_iterable_", edits=[dict(file=CATCH,
         old="return CompositeDisposable(subscription, cancelable, Disposable(dispose))",
         new="return CompositeDisposable(subscription, Disposable(dispose))")]),
    dict(expect="fire", desc="window_with_count hands raw subject downstream", names="G1-addref", edits=[dict(file=WWC,
         old="observer.on_next(add_ref(s, refCountDisposable))", new="observer.on_next(s)")]),
    dict(expect="fire", desc="group_by_until group without refcount", names="G1-addref", edits=[dict(file=GBU,
         old="GroupedObservable(\n                        key, writer, ref_count_disposable\n                    )",
         new="GroupedObservable(\n                        key, writer\n                    )")]),
    dict(expect="fire", desc="AutoDetachObserver.on_error no finally", names="W1-terminal-disposes", edits=[dict(file=ADO,
         old="        try:\n            self._on_error(error)\n        finally:\n            self.dispose()",
         new="        self._on_error(error)\n        if error is None:\n            self.dispose()")]),
    dict(expect="fire", desc="window_with_count returns m instead of refcount", names="G1-addref", edits=[dict(file=WWC,
         old="        return refCountDisposable", new="        return m")]),
    dict(expect="fire", desc="switch_latest inner subscription not stored", names="switch_latest_", edits=[dict(file=SW,
         old="            d.disposable = obs.subscribe(", new="            _unused = obs.subscribe(")]),
    dict(expect="silent", desc="catch builds composite in two steps", edits=[dict(file=CATCH,
         old="        return CompositeDisposable(subscription, cancelable, Disposable(dispose))",
         new="        result = CompositeDisposable(subscription)\n        result.add(Disposable(dispose))\n        result.add(cancelable)\n        return result")]),
    dict(expect="silent", desc="merge_all reorder add", edits=[dict(file=MERGE,
         old="        m = SingleAssignmentDisposable()\n        group.add(m)\n",
         new="        m = SingleAssignmentDisposable()\n"), dict(file=MERGE,
         old="        return group\n\n    return Observable(subscribe)\n\n\n__all__", new="        group.add(m)\n        return group\n\n    return Observable(subscribe)\n\n\n__all__")]),
    dict(expect="fire", desc="seed C02-r3/2: add_ref takes its reference when the window is created", names="G1-addref", edits=[dict(file="reactivex/internal/utils.py",
         old="    def subscribe(\n        observer: abc.ObserverBase[Any], scheduler: abc.SchedulerBase | None = None\n    ) -> abc.DisposableBase:\n        return CompositeDisposable(r.disposable, xs.subscribe(observer))",
         new="    ref = r.disposable\n\n    def subscribe(\n        observer: abc.ObserverBase[Any], scheduler: abc.SchedulerBase | None = None\n    ) -> abc.DisposableBase:\n        return CompositeDisposable(ref, xs.subscribe(observer))")]),
    dict(expect="fire", desc="seed C02-r5/2: add_ref returns only the inner subscription for a closed window", names="G1-addref", edits=[dict(file="reactivex/internal/utils.py",
         old="        return CompositeDisposable(r.disposable, xs.subscribe(observer))",
         new="        ref = r.disposable\n        subscription = xs.subscribe(observer)\n        if getattr(xs, \"is_stopped\", False):\n            return subscription\n        return CompositeDisposable(ref, subscription)")]),
    dict(expect="silent", desc="add_ref: reference and subscription named first", edits=[dict(file="reactivex/internal/utils.py",
         old="        return CompositeDisposable(r.disposable, xs.subscribe(observer))",
         new="        ref = r.disposable\n        subscription = xs.subscribe(observer)\n        return CompositeDisposable(ref, subscription)")]),
    dict(expect="silent", desc="AutoDetachObserver: both terminal handlers share a correct helper", edits=[dict(file="reactivex/observer/autodetachobserver.py",
         old="    def on_error(self, error: Exception) -> None:\n        if self.is_stopped:\n            return\n        self.is_stopped = True\n\n        try:\n            self._on_error(error)\n        finally:\n            self.dispose()\n\n    def on_completed(self) -> None:\n        if self.is_stopped:\n            return\n        self.is_stopped = True\n\n        try:\n            self._on_completed()\n        finally:\n            self.dispose()\n", new="    def on_error(self, error: Exception) -> None:\n        self._terminate(self._on_error, error)\n\n    def on_completed(self) -> None:\n        self._terminate(self._on_completed)\n\n    def _terminate(self, handler, *args) -> None:\n        if self.is_stopped:\n            return\n        self.is_stopped = True\n\n        try:\n            handler(*args)\n        finally:\n            self.dispose()\n")]),
    dict(expect="fire", desc="seed C02-r5/1: shared terminal helper lost its try/finally", names="W1-terminal-disposes", edits=[dict(file="reactivex/observer/autodetachobserver.py",
         old="    def on_error(self, error: Exception) -> None:\n        if self.is_stopped:\n            return\n        self.is_stopped = True\n\n        try:\n            self._on_error(error)\n        finally:\n            self.dispose()\n\n    def on_completed(self) -> None:\n        if self.is_stopped:\n            return\n        self.is_stopped = True\n\n        try:\n            self._on_completed()\n        finally:\n            self.dispose()\n", new="    def on_error(self, error: Exception) -> None:\n        self._terminate(self._on_error, error)\n\n    def on_completed(self) -> None:\n        self._terminate(self._on_completed)\n\n    def _terminate(self, handler, *args) -> None:\n        if self.is_stopped:\n            return\n        self.is_stopped = True\n\n        handler(*args)\n        self.dispose()\n")]),
]
