FI = "reactivex/observable/fromiterable.py"
TR = "reactivex/scheduler/trampoline.py"
SI = "reactivex/scheduler/scheduleditem.py"
ADO = "reactivex/observer/autodetachobserver.py"
RNG = "reactivex/observable/range.py"
CASES = [
    dict(expect="fire", desc="from_iterable loop ignores disposed", names="E8-producer-poll", edits=[dict(file=FI,
         old="while not disposed:", new="while True:")]),
    dict(expect="fire", desc="from_iterable does not return Disposable(dispose)", names="E8-producer-poll", edits=[dict(file=FI,
         old="return CompositeDisposable(_scheduler.schedule(action), disp)", new="return CompositeDisposable(_scheduler.schedule(action))")]),
    dict(expect="fire", desc="trampoline invokes cancelled items", names="S1-invoke-guard", edits=[dict(file=TR,
         old="                if not item.is_cancelled():\n                    item.invoke()", new="                item.invoke()")]),
    dict(expect="fire", desc="ScheduledItem.cancel no-op", names="S1-invoke-guard", edits=[dict(file=SI,
         old="        self.disposable.dispose()", new="        pass")]),
    dict(expect="fire", desc="wrapper dispose leaves subscription", names="W2-dispose-releases", edits=[dict(file=ADO,
         old="        self.is_stopped = True\n        self._subscription.dispose()", new="        self.is_stopped = True")]),
    dict(expect="fire", desc="range drops re-schedule disposable", names="range_", edits=[dict(file=RNG,
         old="                sd.disposable = _scheduler.schedule(action, state=iterator)", new="                _scheduler.schedule(action, state=iterator)")]),
    dict(expect="silent", desc="from_iterable: break-style poll", edits=[dict(file=FI,
         old="                while not disposed:\n                    value = next(iterator)",
         new="                while True:\n                    if disposed:\n                        break\n                    value = next(iterator)")]),
    dict(expect="silent", desc="trampoline: cancelled bound to local", edits=[dict(file=TR,
         old="                if not item.is_cancelled():\n                    item.invoke()",
         new="                cancelled = item.is_cancelled()\n                if not cancelled:\n                    item.invoke()")]),
    dict(expect="fire", desc="seed C29-r3/1: ScheduledItem.invoke skips storing the result when cancelled during its own run", names="S1-invoke-guard", edits=[dict(file="reactivex/scheduler/scheduleditem.py",
         old="        self.disposable.disposable = ret", new="        if not self.is_cancelled():\n            self.disposable.disposable = ret")]),
    dict(expect="fire", desc="mutant: from_iterable's dispose writes False into the polled flag", names="E8-producer-poll", edits=[dict(file="reactivex/observable/fromiterable.py",
         old="            nonlocal disposed\n            disposed = True", new="            nonlocal disposed\n            disposed = False")]),
]
