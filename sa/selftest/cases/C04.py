CATCH = "reactivex/observable/catch.py"
TAKE = "reactivex/operators/_take.py"
UT = "reactivex/internal/utils.py"
WD = "reactivex/operators/_whiledo.py"
INIT = "reactivex/__init__.py"
ZIP = "reactivex/operators/_zip.py"
FCB = "reactivex/observable/fromcallback.py"
DUC = "reactivex/operators/_distinctuntilchanged.py"
SL = "reactivex/operators/_skiplast.py"
CASES = [
    dict(expect="fire", desc="catch: iterator hoisted to build time (pre-fix code)", names="sources_", edits=[
        dict(file=CATCH, old="        sources_ = iter(sources)\n", new=""),
        dict(file=CATCH, old="    def subscribe(\n        observer: abc.ObserverBase[_T], scheduler_", new="    sources_ = iter(sources)\n\n    def subscribe(\n        observer: abc.ObserverBase[_T], scheduler_")]),
    dict(expect="fire", desc="take: remaining hoisted to application level", names="remaining", edits=[
        dict(file=TAKE, old="        remaining = count\n\n        def on_next", new="        def on_next"),
        dict(file=TAKE, old="    def subscribe(\n        observer: abc.ObserverBase[_T],", new="    remaining = count\n\n    def subscribe(\n        observer: abc.ObserverBase[_T],")]),
    dict(expect="fire", desc="infinite() back to a one-shot generator", names="map_indexed_", edits=[dict(file=UT,
         old="def infinite() -> Iterable[int]:\n    return _Infinite()", new="def infinite() -> Iterable[int]:\n    n = 0\n    while True:\n        yield n\n        n += 1")]),
    dict(expect="fire", desc="while_do: iterator per application (pre-fix)", names="while_do", edits=[dict(file=WD,
         old="        return reactivex.defer(\n            lambda _: reactivex.concat_with_iterable(\n                itertools.takewhile(condition, (obs for _ in infinite()))\n            )\n        )",
         new="        it = itertools.takewhile(condition, (obs for _ in infinite()))\n        return reactivex.concat_with_iterable(it)")]),
    dict(expect="fire", desc="for_in: map object at build time (pre-fix)", names="for_in", edits=[dict(file=INIT,
         old="    return defer(lambda _: concat_with_iterable(map(mapper, values)))",
         new="    mapped = map(mapper, values)\n    return concat_with_iterable(mapped)")]),
    dict(expect="fire", desc="zip_with_iterable: iter at application (pre-fix)", names="second", edits=[
        dict(file=ZIP, old="        second = iter(seq)\n", new=""),
        dict(file=ZIP, old="    first = source\n", new="    first = source\n    second = iter(seq)\n")]),
    dict(expect="fire", desc="from_callback: append handler to shared list (pre-fix)", names="arguments", edits=[dict(file=FCB,
         old="            func(*arguments, handler)", new="            arguments.append(handler)\n            func(*arguments)")]),
    dict(expect="fire", desc="skip_last: queue hoisted", names="q [", edits=[
        dict(file=SL, old="        q: list[_T] = []\n\n        def on_next", new="        def on_next"),
        dict(file=SL, old="    def subscribe(\n", new="    q: list[_T] = []\n\n    def subscribe(\n")]),
    dict(expect="silent", desc="take: cell instead of nonlocal", edits=[
        dict(file=TAKE, old="        remaining = count\n", new="        remaining = [count]\n"),
        dict(file=TAKE, old="            nonlocal remaining\n\n            if remaining > 0:\n                remaining -= 1\n                observer.on_next(value)\n                if not remaining:",
             new="            if remaining[0] > 0:\n                remaining[0] -= 1\n                observer.on_next(value)\n                if not remaining[0]:")]),
    dict(expect="silent", desc="catch: constant hoisted (immutable)", edits=[
        dict(file=CATCH, old="    def subscribe(\n        observer: abc.ObserverBase[_T], scheduler_", new="    label = 'catch'\n\n    def subscribe(\n        observer: abc.ObserverBase[_T], scheduler_")]),
    dict(expect="fire", desc="seed C04-r2/2: average accumulator updates the shared seed in place", names="E1-pure-accumulator", edits=[dict(file="reactivex/operators/_average.py",
         old="        return AverageValue(sum=prev.sum + cur, count=prev.count + 1)", new="        prev.sum += cur\n        prev.count += 1\n        return prev")]),
    dict(expect="fire", desc="seed C06-r2/1: scan keeps its accumulator in the operator closure (defer dropped)", names="E1-no-early-state", edits=[dict(file="reactivex/operators/_scan.py",
         old="    def factory(scheduler: abc.SchedulerBase) -> Observable[_TState]:\n        has_accumulation = False\n        accumulation: _TState = cast(_TState, None)\n",
         new="    has_accumulation = False\n    accumulation: _TState = cast(_TState, None)\n\n    def factory(scheduler: abc.SchedulerBase) -> Observable[_TState]:\n")]),
    dict(expect="fire", desc="seed C04-r3/3: infinite() returns a one-shot itertools.count()", names="E1-no-early-state", edits=[dict(file="reactivex/internal/utils.py",
         old="def infinite() -> Iterable[int]:\n    return _Infinite()", new="def infinite() -> Iterable[int]:\n    import itertools\n    return itertools.count()")]),
]
