O = "reactivex/operators/"
CASES = [
    dict(expect="fire", desc="first: empty without default completes silently", names="first_or_default_async_", edits=[dict(file=O + "_firstordefault.py",
         old="                    observer.on_error(SequenceContainsNoElementsError())", new="                    observer.on_completed()")]),
    dict(expect="fire", desc="single: second element ignored", names="single_or_default_async_", edits=[dict(file=O + "_singleordefault.py",
         old="                    observer.on_error(\n                        Exception(\"Sequence contains more than one element\")\n                    )", new="                    pass")]),
    dict(expect="fire", desc="to_list emits per element", names="to_iterable_", edits=[dict(file=O + "_toiterable.py",
         old="            queue.append(item)", new="            queue.append(item)\n            observer.on_next(list(queue))")]),
    dict(expect="fire", desc="some: does not short-circuit completion", names="some_", edits=[dict(file=O + "_some.py",
         old="            observer.on_next(True)\n            observer.on_completed()", new="            observer.on_next(True)")]),
    dict(expect="fire", desc="last: emits on every element", names="last_or_default_async", edits=[dict(file=O + "_lastordefault.py",
         old="            seen_value[0] = True", new="            seen_value[0] = True\n            observer.on_next(x)")]),
    dict(expect="fire", desc="reduce no longer uses scan", names="K4-composites", edits=[dict(file=O + "_reduce.py",
         old="ops.scan(", new="ops.map(", count=None)], allow_error=True),
    dict(expect="silent", desc="last: flags renamed", edits=[dict(file=O + "_lastordefault.py", old="seen_value", new="saw_any", count=None)]),
]
