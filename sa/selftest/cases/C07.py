SL = "reactivex/operators/_slice.py"
OBS = "reactivex/observable/observable.py"
CASES = [
    dict(expect="fire", desc="pre-fix: neg start / pos stop", names="start:neg stop:pos", edits=[dict(file=SL,
         old="    if _start < 0 and 0 < _stop < maxsize:", new="    if False and _start < 0 and 0 < _stop < maxsize:")]),
    dict(expect="fire", desc="pre-fix: source[-1]", names="key -1", edits=[dict(file=OBS,
         old="(key + 1 if key != -1 else None)", new="key + 1")]),
    dict(expect="fire", desc="_stop >= 0 -> _stop > 0", names="stop:zero", edits=[dict(file=SL,
         old="        if _stop >= 0:\n            pipeline.append(ops.take(_stop))", new="        if _stop > 0:\n            pipeline.append(ops.take(_stop))")]),
    dict(expect="fire", desc="skip before take", names="S2-slice-semantics", edits=[dict(file=SL,
         old="        if _stop >= 0:\n            pipeline.append(ops.take(_stop))\n\n        if _start > 0:\n            pipeline.append(ops.skip(_start))",
         new="        if _start > 0:\n            pipeline.append(ops.skip(_start))\n\n        if _stop >= 0:\n            pipeline.append(ops.take(_stop))")]),
    dict(expect="fire", desc="step filter off by one", names="step:>1", edits=[dict(file=SL,
         old="i % _step == 0", new="i % _step == 1")]),
    dict(expect="fire", desc="tagged filter uses <=", names="start:neg stop:pos", edits=[dict(file=SL,
         old="ix[0] < _stop", new="ix[0] <= _stop")]),
    dict(expect="silent", desc="elif -> independent if; flipped comparison spelling", edits=[dict(file=SL,
         old="        if _start > 0:\n            pipeline.append(ops.skip(_start))\n        elif _start < 0:\n            pipeline.append(ops.take_last(-_start))",
         new="        if 0 < _start:\n            pipeline.append(ops.skip(_start))\n        if _start < 0:\n            pipeline.append(ops.take_last(-_start))")]),
    dict(expect="fire", desc="skip_last before take_last (order matters for neg/neg)", names="start:neg stop:neg", edits=[dict(file=SL,
         old="        if _start > 0:\n            pipeline.append(ops.skip(_start))\n        elif _start < 0:\n            pipeline.append(ops.take_last(-_start))\n\n        if _stop < 0:\n            pipeline.append(ops.skip_last(-_stop))",
         new="        if _stop < 0:\n            pipeline.append(ops.skip_last(-_stop))\n\n        if _start > 0:\n            pipeline.append(ops.skip(_start))\n        elif _start < 0:\n            pipeline.append(ops.take_last(-_start))")]),
]
