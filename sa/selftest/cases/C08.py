DB = "reactivex/operators/_debounce.py"
PW = "reactivex/operators/_pairwise.py"
SM = "reactivex/operators/_sample.py"
AS = "reactivex/subject/asyncsubject.py"
TF = "reactivex/operators/_tofuture.py"
SL = "reactivex/operators/_skiplast.py"
MAP = "reactivex/operators/_map.py"
TL = "reactivex/operators/_takelast.py"
CASES = [
    dict(expect="fire", desc="skip_last pre-fix (front is not None)", names="front", edits=[dict(file=SL,
         old="            has_front = False\n            with source.lock:\n                q.append(value)\n                if len(q) > count:\n                    front = q.pop(0)\n                    has_front = True\n\n            if has_front:",
         new="            front = None\n            with source.lock:\n                q.append(value)\n                if len(q) > count:\n                    front = q.pop(0)\n\n            if front is not None:")]),
    dict(expect="fire", desc="debounce flushes by value truthiness", names="value", edits=[dict(file=DB,
         old="            if has_value[0]:\n", new="            if value[0]:\n")]),
    dict(expect="fire", desc="pairwise decides by previous", names="previous", edits=[dict(file=PW,
         old="                if has_previous:", new="                if previous is not None:")]),
    dict(expect="fire", desc="sample by value", names="value", edits=[dict(file=SM,
         old="            if has_value:\n                has_value = False", new="            if value:\n                has_value = False")]),
    dict(expect="fire", desc="AsyncSubject completes by value", names="value", edits=[dict(file=AS,
         old="        if has_value:", new="        if value:")]),
    dict(expect="fire", desc="to_future resolves only truthy last value", names="last_value", edits=[dict(file=TF,
         old="                if has_value:", new="                if last_value:")]),
    dict(expect="fire", desc="map drops falsy input", names="value", edits=[dict(file=MAP,
         old="            try:\n                result = _mapper(value)", new="            if not value:\n                return\n            try:\n                result = _mapper(value)")]),
    dict(expect="fire", desc="take_last emits only truthy queued items", names="E4-element", edits=[dict(file=TL,
         old="                observer.on_next(q.pop(0))", new="                item = q.pop(0)\n                if item:\n                    observer.on_next(item)")]),
    dict(expect="silent", desc="take_last: queue emptiness spelled len()", edits=[dict(file=TL,
         old="            while q:", new="            while len(q) > 0:")]),
    dict(expect="silent", desc="pairwise: flag renamed", edits=[dict(file=PW, old="has_previous", new="seen_one", count=4)]),
    dict(expect="fire", desc="seed C06/1: extrema_by uses `last_key is None` as its no-element-yet test", names="E4-element-truthiness", edits=[dict(file="reactivex/operators/_minby.py",
         old="            if not has_value:\n                has_value = True\n                last_key = key", new="            if last_key is None:\n                has_value = True\n                last_key = key")]),
    dict(expect="fire", desc="scan: accumulation truth-tested instead of has_accumulation", names="E4-element-truthiness", edits=[dict(file="reactivex/operators/_scan.py",
         old="            if has_accumulation:", new="            if accumulation:")]),
    dict(expect="fire", desc="seed C08-r2/3: combine_latest gates on all(values)", names="E4-element-truthiness", edits=[dict(file="reactivex/observable/combinelatest.py",
         old="            has_value_all = has_value_all or all(has_value)", new="            has_value_all = has_value_all or all(values)")]),
    dict(expect="fire", desc="seed C07-r5/2: take_last ring buffer skips None slots", names="E4-element-truthiness", edits=[dict(file="reactivex/operators/_takelast.py",
         old="        q: list[_T] = []\n\n        def on_next(x: _T) -> None:\n            q.append(x)\n            if len(q) > count:\n                q.pop(0)\n\n        def on_completed():\n            while q:\n                observer.on_next(q.pop(0))",
         new="        ring: list = [None] * count\n        seen = 0\n\n        def on_next(x: _T) -> None:\n            nonlocal seen\n            if count:\n                ring[seen % count] = x\n                seen += 1\n\n        def on_completed():\n            oldest = seen % count if count else 0\n            for x in ring[oldest:] + ring[:oldest]:\n                if x is not None:\n                    observer.on_next(x)")]),
]
