MAP = "reactivex/operators/_map.py"
FIL = "reactivex/operators/_filter.py"
DIS = "reactivex/operators/_distinct.py"
OER = "reactivex/observable/onerrorresumenext.py"
GEN = "reactivex/observable/generate.py"
CON = "reactivex/observable/concat.py"
DUC = "reactivex/operators/_distinctuntilchanged.py"
SCAN = "reactivex/operators/_scan.py"
CASES = [
    dict(expect="fire", desc="map: try removed", names="map_", edits=[dict(file=MAP,
         old="            try:\n                result = _mapper(value)\n            except Exception as err:  # pylint: disable=broad-except\n                obv.on_error(err)\n            else:\n                obv.on_next(result)",
         new="            result = _mapper(value)\n            obv.on_next(result)")]),
    dict(expect="fire", desc="filter: handler narrowed to ValueError", names="filter_", edits=[dict(file=FIL,
         old="            except Exception as ex:  # pylint: disable=broad-except\n                observer.on_error(ex)\n                return\n\n            if should_run:",
         new="            except ValueError as ex:  # pylint: disable=broad-except\n                observer.on_error(ex)\n                return\n\n            if should_run:", count=1)]),
    dict(expect="fire", desc="distinct pre-fix: unguarded push", names="distinct_", edits=[dict(file=DIS,
         old="            try:\n                is_new = hashset.push(key)\n            except Exception as ex:\n                observer.on_error(ex)\n                return\n",
         new="            is_new = hashset.push(key)\n")]),
    dict(expect="fire", desc="oern pre-fix: unguarded factory", names="on_error_resume_next_", edits=[dict(file=OER,
         old="            try:\n                source = source(state) if callable(source) else source\n            except Exception as ex:  # pylint: disable=broad-except\n                observer.on_error(ex)\n                return\n",
         new="            source = source(state) if callable(source) else source\n")]),
    dict(expect="fire", desc="generate: handler swallows", names="E2-routes", edits=[dict(file=GEN,
         old="            except Exception as exception:  # pylint: disable=broad-except\n                observer.on_error(exception)\n                return",
         new="            except Exception as exception:  # pylint: disable=broad-except\n                return")]),
    dict(expect="fire", desc="concat: lazy source iterator advanced without Exception guard", names="concat_with_iterable_", edits=[dict(file=CON,
         old="            except Exception as ex:  # pylint: disable=broad-except\n                observer.on_error(ex)\n            else:", new="            else:")]),
    dict(expect="fire", desc="distinct_until_changed: comparer moved out of try", names="distinct_until_changed_", edits=[dict(file=DUC,
         old="                try:\n                    comparer_equals = comparer_(current_key, key)\n                except Exception as exception:  # pylint: disable=broad-except\n                    observer.on_error(exception)\n                    return",
         new="                comparer_equals = comparer_(current_key, key)")]),
    dict(expect="silent", desc="map: exception variable renamed / return style", edits=[dict(file=MAP,
         old="            except Exception as err:  # pylint: disable=broad-except\n                obv.on_error(err)\n            else:\n                obv.on_next(result)",
         new="            except Exception as failure:\n                obv.on_error(failure)\n                return\n            obv.on_next(result)")]),
    dict(expect="silent", desc="distinct: guarded call moved into a guarded helper", edits=[dict(file=DIS,
         old="            try:\n                is_new = hashset.push(key)\n            except Exception as ex:\n                observer.on_error(ex)\n                return\n",
         new="            def probe():\n                return hashset.push(key)\n\n            try:\n                is_new = probe()\n            except Exception as ex:\n                observer.on_error(ex)\n                return\n")]),
    dict(expect="fire", desc="seed C09-r4/1: on_error_resume_next reports `state` instead of the factory's exception", names="E2-routes", edits=[dict(file="reactivex/observable/onerrorresumenext.py",
         old="                observer.on_error(ex)", new="                observer.on_error(state)")]),
    dict(expect="fire", desc="seed C09-r5/1: on_error_resume_next calls the user factory inside the try that takes StopIteration for the end", names="E2-routes", edits=[dict(file="reactivex/observable/onerrorresumenext.py",
         old="            try:\n                source = next(sources_)\n            except StopIteration:\n                observer.on_completed()\n                return\n\n            # Allow source to be a factory method taking an error\n            try:\n                source = source(state) if callable(source) else source\n            except Exception as ex:",
         new="            try:\n                source = next(sources_)\n                source = source(state) if callable(source) else source\n            except StopIteration:\n                observer.on_completed()\n                return\n            except Exception as ex:")]),
]
