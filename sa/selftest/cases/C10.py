CC = "reactivex/observable/concat.py"
CT = "reactivex/observable/catch.py"
OE = "reactivex/observable/onerrorresumenext.py"
RT = "reactivex/operators/_retry.py"
CASES = [
    dict(expect="fire", desc="concat continues on error too", names="Q1-who-advances", edits=[dict(file=CC,
         old="                    observer.on_next,\n                    observer.on_error,\n                    on_completed,", new="                    observer.on_next,\n                    lambda e: on_completed(),\n                    on_completed,")]),
    dict(expect="fire", desc="catch: completion also advances", names="catch_with_iterable_", edits=[dict(file=CT,
         old="                    observer.on_next,\n                    on_error,\n                    observer.on_completed,", new="                    observer.on_next,\n                    on_error,\n                    lambda: on_error(Exception()),")]),
    dict(expect="fire", desc="concat: inner subscribed before serial swap", names="Q2-serial-swap", edits=[dict(file=CC,
         old="                d = SingleAssignmentDisposable()\n                subscription.disposable = d\n                d.disposable = current.subscribe(", new="                d = SingleAssignmentDisposable()\n                d.disposable = current.subscribe("),
         dict(file=CC, old="                    scheduler=scheduler_,\n                )\n", new="                    scheduler=scheduler_,\n                )\n                subscription.disposable = d\n")]),
    dict(expect="fire", desc="retry ignores retry_count", names="Q3-delegations", edits=[dict(file=RT, old="gen = range(retry_count)", new="gen = range(retry_count + 1)")]),
    dict(expect="fire", desc="oern: next source also started per element", names="Q1-who-advances", edits=[dict(file=OE,
         old="                observer.on_next, on_resume, on_resume, scheduler=scheduler", new="                lambda x: (observer.on_next(x), on_resume()), on_resume, on_resume, scheduler=scheduler")]),
    dict(expect="silent", desc="concat: action renamed", edits=[dict(file=CC, old="action", new="step", count=None)]),
    dict(expect="fire", desc="seed C10-r2/3: retry(0) treated as unbounded (truthiness of the count)", names="Q3-delegations", edits=[dict(file="reactivex/operators/_retry.py",
         old="        if retry_count is None:\n            gen = infinite()\n        else:\n            gen = range(retry_count)", new="        gen = range(retry_count) if retry_count else infinite()")]),
    dict(expect="silent", desc="retry: None test written positively", edits=[dict(file="reactivex/operators/_retry.py",
         old="        if retry_count is None:\n            gen = infinite()\n        else:\n            gen = range(retry_count)", new="        if retry_count is not None:\n            gen = range(retry_count)\n        else:\n            gen = infinite()")]),
    dict(expect="silent", desc="catch_with_iterable: error presence tested with `is None` first", edits=[dict(file="reactivex/observable/catch.py",
         old="                if last_exception is not None:\n                    observer.on_error(last_exception)\n                else:\n                    observer.on_completed()",
         new="                if last_exception is None:\n                    observer.on_completed()\n                else:\n                    observer.on_error(last_exception)")]),
    dict(expect="fire", desc="seed C10-r4/2: catch stores the scheduled resubscription in the SerialDisposable that holds the source subscription", names="Q4-continuation-survives", edits=[dict(file="reactivex/observable/catch.py",
         old="                last_exception = exn\n                cancelable.disposable = _scheduler.schedule(action)", new="                last_exception = exn\n                subscription.disposable = _scheduler.schedule(action)")]),
    dict(expect="fire", desc="seed C10-r4/3: __iadd__ concatenates in the wrong order", names="Q7-plus-is-concat", edits=[dict(file="reactivex/observable/observable.py",
         old="        return concat(self, other)\n\n    def __iadd__", new="        return concat(self, other)\n\n    def __iadd__"), dict(file="reactivex/observable/observable.py",
         old="        from reactivex import concat\n\n        return concat(self, other)\n\n    def __getitem__", new="        from reactivex import concat\n\n        return concat(other, self)\n\n    def __getitem__")]),
    dict(expect="fire", desc="seed C10-r4/1: concat hands over on the immediate scheduler by default", names="Q6-trampolined-handover", edits=[
         dict(file="reactivex/observable/concat.py", old="scheduler_ or CurrentThreadScheduler.singleton()", new="scheduler_ or ImmediateScheduler.singleton()"),
         dict(file="reactivex/observable/concat.py", old="from reactivex.scheduler import CurrentThreadScheduler", new="from reactivex.scheduler import ImmediateScheduler")]),
]
