MG = "reactivex/operators/_merge.py"
CASES = [
    dict(expect="fire", desc="merge_all: inner completion ignores outer-stopped", names="J1-completion-join", edits=[dict(file=MG,
         old="                if is_stopped[0] and len(group) == 1:", new="                if len(group) == 1:")]),
    dict(expect="fire", desc="merge: max_concurrent ignored", names="J2-max-concurrent", edits=[dict(file=MG,
         old="            if active_count[0] < max_concurrent:", new="            if True:")]),
    dict(expect="fire", desc="merge: waiting inners served LIFO", names="J2-max-concurrent", edits=[dict(file=MG, old="s = queue.pop(0)", new="s = queue.pop()")]),
    dict(expect="fire", desc="merge_all: outer completion completes immediately", names="J1-completion-join", edits=[dict(file=MG,
         old="            is_stopped[0] = True\n            if len(group) == 1:\n                observer.on_completed()", new="            is_stopped[0] = True\n            observer.on_completed()")]),
    dict(expect="fire", desc="merge: inner errors swallowed", names="merge_", edits=[dict(file=MG,
         old="            on_error = synchronized(source.lock)(observer.on_error)\n            subscription.disposable = xs.subscribe(", new="            on_error = synchronized(source.lock)(lambda e: None)\n            subscription.disposable = xs.subscribe(")]),
    dict(expect="silent", desc="merge: comparison flipped", edits=[dict(file=MG, old="            if active_count[0] < max_concurrent:", new="            if max_concurrent > active_count[0]:")]),
    dict(expect="fire", desc="seed C11/1: merge(max_concurrent) drops the scheduler for inners", names="F0-scheduler-forwarded", edits=[dict(file="reactivex/operators/_merge.py",
         old="            subscription.disposable = xs.subscribe(\n                on_next, on_error, on_completed, scheduler=scheduler\n            )", new="            subscription.disposable = xs.subscribe(on_next, on_error, on_completed)")]),
    dict(expect="fire", desc="seed C11-r2/1: merge_all adds the outer subscription only after subscribing", names="J4-registered-before-subscribe", edits=[
         dict(file="reactivex/operators/_merge.py", old="        m = SingleAssignmentDisposable()\n        group.add(m)\n", new=""),
         dict(file="reactivex/operators/_merge.py", old="        m.disposable = source.subscribe(\n            on_next, on_error, on_completed, scheduler=scheduler\n        )\n        return group",
              new="        group.add(\n            source.subscribe(on_next, on_error, on_completed, scheduler=scheduler)\n        )\n        return group")]),
]
