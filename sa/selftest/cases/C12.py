SW = "reactivex/operators/_switchlatest.py"
CASES = [
    dict(expect="fire", desc="inner on_next without stale guard", names="W1-stale-guard", edits=[dict(file=SW,
         old="            def on_next(x: Any) -> None:\n                if latest[0] == _id:\n                    observer.on_next(x)", new="            def on_next(x: Any) -> None:\n                observer.on_next(x)")]),
    dict(expect="fire", desc="id captured before increment", names="W1-stale-guard", edits=[dict(file=SW,
         old="                latest[0] += 1\n                _id = latest[0]", new="                _id = latest[0]\n                latest[0] += 1")]),
    dict(expect="fire", desc="previous inner not disposed on arrival", names="W2-serial-swap", edits=[dict(file=SW,
         old="            inner_subscription.disposable = d\n", new="")]),
    dict(expect="fire", desc="outer completion completes while inner live", names="W3-completion-join", edits=[dict(file=SW,
         old="            is_stopped[0] = True\n            if not has_latest[0]:\n                observer.on_completed()", new="            is_stopped[0] = True\n            observer.on_completed()")]),
    dict(expect="silent", desc="stale guard spelled the other way round", edits=[dict(file=SW, old="if latest[0] == _id:", new="if _id == latest[0]:", count=None)]),
    dict(expect="silent", desc="switch_latest: inner completion as a guard clause", edits=[dict(file="reactivex/operators/_switchlatest.py",
         old="                if latest[0] == _id:\n                    has_latest[0] = False\n                    if is_stopped[0]:\n                        observer.on_completed()",
         new="                if latest[0] != _id:\n                    return\n                has_latest[0] = False\n                if is_stopped[0]:\n                    observer.on_completed()")]),
]
