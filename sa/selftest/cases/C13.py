Z = "reactivex/observable/zip.py"
CL = "reactivex/observable/combinelatest.py"
WL = "reactivex/observable/withlatestfrom.py"
FJ = "reactivex/observable/forkjoin.py"
AMB = "reactivex/operators/_amb.py"
CASES = [
    dict(expect="fire", desc="combine_latest emits before all have values", names="G1-gating", edits=[dict(file=CL,
         old="            if has_value_all:\n                observer.on_next(tuple(values))", new="            if True:\n                observer.on_next(tuple(values))")]),
    dict(expect="fire", desc="with_latest_from decides by truthiness of values", names="G1-gating", edits=[dict(file=WL,
         old="                    if not any(v is NO_VALUE for v in values):", new="                    if all(values):")]),
    dict(expect="fire", desc="zip completes as soon as any source completes", names="zip_", edits=[dict(file=Z,
         old="            is_completed[i] = True\n            if len(queues[i]) == 0:\n                observer.on_completed()", new="            is_completed[i] = True\n            observer.on_completed()")]),
    dict(expect="fire", desc="amb: loser not disposed", names="G1-gating", edits=[dict(file=AMB,
         old="                choice[0] = left_choice\n                right_subscription.dispose()", new="                choice[0] = left_choice")]),
    dict(expect="fire", desc="with_latest_from: children also emit", names="with_latest_from_", edits=[dict(file=WL,
         old="                    with parent.lock:\n                        values[i] = value\n", new="                    with parent.lock:\n                        values[i] = value\n                        observer.on_next((value,))\n")]),
    dict(expect="silent", desc="combine_latest: helper renamed", edits=[dict(file=CL, old="def _next(", new="def _emit("), dict(file=CL, old="                    _next(i)", new="                    _emit(i)")]),
    dict(expect="fire", desc="seed C13-r2/2: with_latest_from subscribes the primary before the others", names="G1-gating", edits=[dict(file="reactivex/observable/withlatestfrom.py",
         old="            children_subscription = [\n                subscribechild(i, child) for i, child in enumerate(children)\n            ]\n            disp = parent.subscribe(\n                on_next, on_error, on_completed, scheduler=scheduler\n            )\n            parent_subscription.disposable = disp\n",
         new="            parent_subscription.disposable = parent.subscribe(\n                on_next, on_error, on_completed, scheduler=scheduler\n            )\n            children_subscription = [\n                subscribechild(i, child) for i, child in enumerate(children)\n            ]\n")]),
    dict(expect="silent", desc="with_latest_from: children subscribed in a loop before the primary", edits=[dict(file="reactivex/observable/withlatestfrom.py",
         old="            children_subscription = [\n                subscribechild(i, child) for i, child in enumerate(children)\n            ]\n",
         new="            children_subscription = []\n            for i, child in enumerate(children):\n                children_subscription.append(subscribechild(i, child))\n")]),
    dict(expect="fire", desc="pre-fix a6fd088: with_latest_from tests the marker with `not in` (element __eq__)", names="G1-gating", edits=[dict(file="reactivex/observable/withlatestfrom.py",
         old="if not any(v is NO_VALUE for v in values):", new="if NO_VALUE not in values:")]),
    dict(expect="silent", desc="with_latest_from: all(v is not NO_VALUE ...) form", edits=[dict(file="reactivex/observable/withlatestfrom.py",
         old="if not any(v is NO_VALUE for v in values):", new="if all(v is not NO_VALUE for v in values):")]),
    dict(expect="fire", desc="with_latest_from: marker compared by equality inside any()", names="G1-gating", edits=[dict(file="reactivex/observable/withlatestfrom.py",
         old="if not any(v is NO_VALUE for v in values):", new="if not any(v == NO_VALUE for v in values):")]),
    dict(expect="fire", desc="mutant: reactivex.amb drops the accumulation", names="A1-amb-fold", edits=[dict(file="reactivex/observable/amb.py",
         old="        acc = func(acc, source)", new="        func(acc, source)")]),
    dict(expect="silent", desc="reactivex.amb: fold written without the helper", edits=[dict(file="reactivex/observable/amb.py",
         old="        acc = func(acc, source)", new="        acc = _.amb(acc)(source)")]),
    dict(expect="fire", desc="mutant: amb's right error handler does not enter the race", names="G1-gating", edits=[dict(file=AMB,
         old="        def on_error_right(err: Exception) -> None:\n            with left_source.lock:\n                choice_right()", new="        def on_error_right(err: Exception) -> None:\n            with left_source.lock:\n                pass")]),
    dict(expect="fire", desc="seed C13-r4/2: amb's right error handler is gated by the LEFT side's constant", names="G1-gating", edits=[dict(file=AMB,
         old="                choice_right()\n            if choice[0] == right_choice:\n                observer.on_error(err)", new="                choice_right()\n            if choice[0] == left_choice:\n                observer.on_error(err)")]),
]
