OBS = "reactivex/observable/observable.py"
FI = "reactivex/observable/fromiterable.py"
TK = "reactivex/operators/_take.py"
GEN = "reactivex/observable/generate.py"
CASES = [
    dict(expect="fire", desc="subscribe never trampolines", names="H1-trampolined-subscribe", edits=[dict(file=OBS,
         old="        if current_thread_scheduler.schedule_required():\n            current_thread_scheduler.schedule(set_disposable)\n        else:\n            set_disposable()", new="        set_disposable()")]),
    dict(expect="fire", desc="from_iterable ignores disposal", names="E8-producer-poll", edits=[dict(file=FI, old="while not disposed:", new="while True:")]),
    dict(expect="fire", desc="take never completes early", names="H3-early-terminal", edits=[dict(file=TK,
         old="                if not remaining:\n                    observer.on_completed()\n", new="")]),
    dict(expect="fire", desc="generate: re-scheduled step not held", names="H2-cancellable-producer", edits=[dict(file=GEN,
         old="                observer.on_next(result)\n                mad.disposable = scheduler.schedule(action)", new="                observer.on_next(result)\n                scheduler.schedule(action)")]),
    dict(expect="silent", desc="subscribe: inverted test", edits=[dict(file=OBS,
         old="        if current_thread_scheduler.schedule_required():\n            current_thread_scheduler.schedule(set_disposable)\n        else:\n            set_disposable()",
         new="        if not current_thread_scheduler.schedule_required():\n            set_disposable()\n        else:\n            current_thread_scheduler.schedule(set_disposable)")]),
]
