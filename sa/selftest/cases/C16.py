DB = "reactivex/operators/_debounce.py"
TF = "reactivex/operators/_throttlefirst.py"
SM = "reactivex/operators/_sample.py"
CASES = [
    dict(expect="fire", desc="debounce timer ignores the id", names="R1-stale-timer", edits=[dict(file=DB,
         old="                should_emit = has_value[0] and _id[0] == current_id", new="                should_emit = has_value[0]")]),
    dict(expect="fire", desc="debounce completes without flushing", names="debounce_", edits=[dict(file=DB,
         old="            cancelable.dispose()\n            if has_value[0]:\n                observer.on_next(value[0])\n\n            observer.on_completed()", new="            cancelable.dispose()\n            observer.on_completed()")]),
    dict(expect="fire", desc="throttle_first strict comparison", names="R3-throttle-first", edits=[dict(file=TF,
         old="now - last_on_next >= duration", new="now - last_on_next > duration")]),
    dict(expect="fire", desc="sample re-emits the same value", names="R4-sample-once", edits=[dict(file=SM,
         old="            if has_value:\n                has_value = False\n                observer.on_next(value)", new="            if has_value:\n                observer.on_next(value)")]),
    dict(expect="fire", desc="debounce on_error does not bump id", names="R1-stale-timer", edits=[dict(file=DB,
         old="            observer.on_error(exception)\n            has_value[0] = False\n            _id[0] += 1", new="            observer.on_error(exception)\n            has_value[0] = False")]),
    dict(expect="silent", desc="throttle_first comparison flipped", edits=[dict(file=TF,
         old="now - last_on_next >= duration", new="duration <= now - last_on_next")]),
    dict(expect="fire", desc="pre-fix 0c202a8: debounce clears the pending flag after emitting", names="G0-state-before-callout", edits=[dict(file="reactivex/operators/_debounce.py",
         old="                should_emit = has_value[0] and _id[0] == current_id\n                has_value[0] = False\n                if should_emit:\n                    observer.on_next(value[0])",
         new="                if has_value[0] and _id[0] == current_id:\n                    observer.on_next(value[0])\n                has_value[0] = False")]),
    dict(expect="fire", desc="seed C16/3: sample clears has_value after the downstream call", names="G0-state-before-callout", edits=[dict(file="reactivex/operators/_sample.py",
         old="                has_value = False\n                observer.on_next(value)", new="                observer.on_next(value)\n                has_value = False")]),
    dict(expect="fire", desc="seed C16/2: throttle_first tests the window outside the lock", names="G0-locked-state", edits=[dict(file="reactivex/operators/_throttlefirst.py",
         old="            with source.lock:\n                if not last_on_next or now - last_on_next >= duration:\n                    last_on_next = now\n                    emit = True",
         new="            if not last_on_next or now - last_on_next >= duration:\n                with source.lock:\n                    last_on_next = now\n                emit = True")]),
    dict(expect="fire", desc="seed C16/1: throttle_with_mapper records the element after subscribing the throttle", names="G0-state-before-subscribe", edits=[
         dict(file="reactivex/operators/_debounce.py", old="            has_value = True\n            value = x\n            _id[0] += 1", new="            _id[0] += 1"),
         dict(file="reactivex/operators/_debounce.py", old="                on_next, observer.on_error, on_completed, scheduler=scheduler\n            )\n\n        def on_error(e: Exception) -> None:\n            nonlocal has_value",
              new="                on_next, observer.on_error, on_completed, scheduler=scheduler\n            )\n            has_value = True\n            value = x\n\n        def on_error(e: Exception) -> None:\n            nonlocal has_value")]),
    dict(expect="silent", desc="debounce: decision local renamed / written as nested ifs", edits=[dict(file="reactivex/operators/_debounce.py",
         old="                should_emit = has_value[0] and _id[0] == current_id\n                has_value[0] = False\n                if should_emit:\n                    observer.on_next(value[0])",
         new="                fire = has_value[0] and _id[0] == current_id\n                has_value[0] = False\n                if not fire:\n                    return\n                observer.on_next(value[0])")]),
    dict(expect="fire", desc="seed C16-r2/1: throttle_first compares float seconds", names="R3-throttle-first", edits=[dict(file="reactivex/operators/_throttlefirst.py",
         old="            now = _scheduler.now\n", new="            now = _scheduler.to_seconds(_scheduler.now)\n")]),
]
