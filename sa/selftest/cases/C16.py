DB = "reactivex/operators/_debounce.py"
TF = "reactivex/operators/_throttlefirst.py"
SM = "reactivex/operators/_sample.py"
CASES = [
    dict(expect="fire", desc="debounce timer ignores the id", names="R1-stale-timer", edits=[dict(file=DB,
         old="                if has_value[0] and _id[0] == current_id:\n                    observer.on_next(value[0])", new="                if has_value[0]:\n                    observer.on_next(value[0])")]),
    dict(expect="fire", desc="debounce completes without flushing", names="debounce_", edits=[dict(file=DB,
         old="            cancelable.dispose()\n            if has_value[0]:\n                observer.on_next(value[0])\n\n            observer.on_completed()", new="            cancelable.dispose()\n            observer.on_completed()")]),
    dict(expect="fire", desc="throttle_first strict comparison", names="R3-throttle-first", edits=[dict(file=TF,
         old="now - last_on_next >= duration", new="now - last_on_next > duration")]),
    dict(expect="fire", desc="sample re-emits the same value", names="R4-sample-once", edits=[dict(file=SM,
         old="            if has_value:\n                has_value = False\n                observer.on_next(value)", new="            if has_value:\n                observer.on_next(value)")]),
    dict(expect="fire", desc="debounce on_error does not bump id", names="R1-stale-timer", edits=[dict(file=DB,
         old="            observer.on_error(exception)\n            has_value[0] = False\n            _id[0] += 1", new="            observer.on_error(exception)\n            has_value[0] = False")]),
    dict(expect="silent", desc="throttle_first comparison flipped", edits=[dict(file=TF,
         old="now - last_on_next >= duration", new="duration <= now - last_on_next")]),
]
