O = "reactivex/operators/"
CASES = [
    dict(expect="fire", desc="pre-fix: take_last_with_time keeps <= at completion", names="X1-boundary-agreement", edits=[dict(file=O + "_takelastwithtime.py",
         old='if now - _next["interval"] < duration:', new='if now - _next["interval"] <= duration:')]),
    dict(expect="fire", desc="skip_last_with_time: completion uses strict >", names="X1-boundary-agreement", edits=[dict(file=O + "_skiplastwithtime.py",
         old='''                while q and now - q[0]["interval"] >= duration:\n                    observer.on_next(q.pop(0)["value"])\n\n                observer.on_completed()''',
         new='''                while q and now - q[0]["interval"] > duration:\n                    observer.on_next(q.pop(0)["value"])\n\n                observer.on_completed()''')]),
    dict(expect="fire", desc="timeout: timer always wins", names="X2-timeout-stale-guard", edits=[dict(file=O + "_timeout.py",
         old="                switched[0] = _id[0] == my_id", new="                switched[0] = True")]),
    dict(expect="fire", desc="timeout: on_completed does not invalidate the timer", names="X2-timeout-stale-guard", edits=[dict(file=O + "_timeout.py",
         old="            if on_completed_wins:\n                _id[0] += 1\n                observer.on_completed()", new="            if on_completed_wins:\n                observer.on_completed()")]),
    dict(expect="fire", desc="take_last_with_time never flushes", names="take_last_with_time_", edits=[dict(file=O + "_takelastwithtime.py",
         old='                if now - _next["interval"] < duration:\n                    observer.on_next(_next["value"])\n', new='                pass\n')]),
    dict(expect="silent", desc="take_last_with_time: flipped spelling of both tests", edits=[
        dict(file=O + "_takelastwithtime.py", old='if now - _next["interval"] < duration:', new='if duration > now - _next["interval"]:'),
        dict(file=O + "_takelastwithtime.py", old='while q and now - q[0]["interval"] >= duration:', new='while q and duration <= now - q[0]["interval"]:')]),
    dict(expect="fire", desc="pre-fix: timeout_with_mapper fallback without scheduler on completion", names="F0-scheduler-forwarded", edits=[dict(file="reactivex/operators/_timeoutwithmapper.py",
         old="                    if timer_wins():\n                        subscription.disposable = other_.subscribe(\n                            observer, scheduler=scheduler\n                        )\n\n                d.disposable",
         new="                    if timer_wins():\n                        subscription.disposable = other_.subscribe(observer)\n\n                d.disposable")]),
    dict(expect="fire", desc="seed C17-r2/2: skip_with_time subscribes before arming its timer", names="X4-boundary-split", edits=[
         dict(file="reactivex/operators/_skipwithtime.py", old="        def action(scheduler: abc.SchedulerBase, state: Any) -> None:\n            open[0] = True\n\n        t = _scheduler.schedule_relative(duration, action)\n\n", new=""),
         dict(file="reactivex/operators/_skipwithtime.py", old="        return CompositeDisposable(t, d)", new="        def action(scheduler: abc.SchedulerBase, state: Any) -> None:\n            open[0] = True\n\n        t = _scheduler.schedule_relative(duration, action)\n        return CompositeDisposable(t, d)")]),
    dict(expect="fire", desc="seed C17-r2/3: timeout on_next no longer bumps the id", names="X2-timeout-stale-guard", edits=[dict(file="reactivex/operators/_timeout.py",
         old="            if send_wins:\n                _id[0] += 1\n", new="            if send_wins:\n")]),
    dict(expect="silent", desc="skip_with_time: timer handle named differently, still armed first", edits=[dict(file="reactivex/operators/_skipwithtime.py",
         old="        t = _scheduler.schedule_relative(duration, action)", new="        timer_handle = _scheduler.schedule_relative(duration, action)"),
         dict(file="reactivex/operators/_skipwithtime.py", old="        return CompositeDisposable(t, d)", new="        return CompositeDisposable(timer_handle, d)")]),
]
