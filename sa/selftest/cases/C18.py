O = "reactivex/operators/"
CASES = [
    dict(expect="fire", desc="window: source error does not end the open window", names="window_", edits=[dict(file=O + "_window.py",
         old="        def on_error(err: Exception) -> None:\n            window_subject.on_error(err)\n            observer.on_error(err)", new="        def on_error(err: Exception) -> None:\n            observer.on_error(err)")]),
    dict(expect="fire", desc="window_with_count: completion completes subscriber first", names="F1-terminal-fan-out", edits=[dict(file=O + "_windowwithcount.py",
         old="            while q:\n                q.pop(0).on_completed()\n            observer.on_completed()", new="            observer.on_completed()\n            while q:\n                q.pop(0).on_completed()")]),
    dict(expect="fire", desc="buffer_with_count drops skip", names="F3-buffer-is-window", edits=[dict(file=O + "_buffer.py",
         old="ops.window_with_count(count, skip_)", new="ops.window_with_count(count)")]),
    dict(expect="fire", desc="window_with_time: elements not delivered to windows", names="window_with_time_", edits=[dict(file=O + "_windowwithtime.py",
         old="                for s in queue:\n                    s.on_next(x)", new="                pass")]),
    dict(expect="fire", desc="window: error ends windows with completion", names="F1-terminal-fan-out", edits=[dict(file=O + "_window.py",
         old="            window_subject.on_error(err)\n            observer.on_error(err)", new="            window_subject.on_completed()\n            observer.on_error(err)")]),
    dict(expect="silent", desc="window: helper renamed", edits=[dict(file=O + "_window.py", old="on_next_window", new="forward_to_window", count=None)]),
]
