G = "reactivex/operators/_groupbyuntil.py"
P = "reactivex/operators/_partition.py"
CASES = [
    dict(expect="fire", desc="expiry does not remove the key", names="G2-expiry", edits=[dict(file=G,
         old="                            del writers[key]\n                            writer.on_completed()", new="                            writer.on_completed()")]),
    dict(expect="fire", desc="element delivered to every group", names="G1-single-delivery", edits=[dict(file=G,
         old="                writer.on_next(element)", new="                for w in writers.values():\n                    w.on_next(element)")]),
    dict(expect="fire", desc="partition: second output uses the predicate itself", names="G4-delegations", edits=[dict(file=P,
         old="        published.pipe(ops.filter(not_predicate)),", new="        published.pipe(ops.filter(predicate)),")]),
    dict(expect="fire", desc="partition: negation wrapper not negating", names="G4-delegations", edits=[dict(file=P,
         old="        return not predicate(x)", new="        return bool(predicate(x))")]),
    dict(expect="fire", desc="source completion does not complete groups", names="group_by_until_", edits=[dict(file=G,
         old="                for wrt in list(writers.values()):\n                    wrt.on_completed()\n\n                observer.on_completed()", new="                observer.on_completed()")]),
    dict(expect="silent", desc="rename loop variable", edits=[dict(file=G, old="wrt", new="group_writer", count=None)]),
    dict(expect="fire", desc="seed C19/2: error fan-out calls writer.on_error instead of the loop variable", names="G3-terminal-fan-out", edits=[dict(file="reactivex/operators/_groupbyuntil.py",
         old="                except Exception as error:\n                    for wrt in list(writers.values()):\n                        wrt.on_error(error)", new="                except Exception as error:\n                    for wrt in list(writers.values()):\n                        writer.on_error(error)")]),
    dict(expect="fire", desc="seed C19/1: duration observed with first() instead of take(1)", names="G2-expiry", edits=[dict(file="reactivex/operators/_groupbyuntil.py",
         old="                        ops.take(1),", new="                        ops.first(),")]),
    dict(expect="fire", desc="pre-fix: terminal fan-out iterates the live group map", names="G3-terminal-fan-out", edits=[dict(file="reactivex/operators/_groupbyuntil.py",
         old="for wrt in list(writers.values()):", new="for wrt in writers.values():", count=None)]),
    dict(expect="silent", desc="snapshot spelled tuple(...)", edits=[dict(file="reactivex/operators/_groupbyuntil.py",
         old="for wrt in list(writers.values()):", new="for wrt in tuple(writers.values()):", count=None)]),
]
