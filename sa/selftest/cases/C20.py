S = "reactivex/subject/subject.py"
I = "reactivex/subject/innersubscription.py"
CASES = [
    dict(expect="fire", desc="on_next iterates live list", names="B1-snapshot", edits=[dict(file=S,
         old="        with self.lock:\n            observers = self.observers.copy()\n\n        for observer in observers:\n            observer.on_next(value)",
         new="        for observer in self.observers:\n            observer.on_next(value)")]),
    dict(expect="fire", desc="on_error records exception after delivery", names="B2-state", edits=[dict(file=S,
         old="            self.observers.clear()\n            self.exception = error\n\n        for observer in observers:\n            observer.on_error(error)",
         new="            self.observers.clear()\n\n        for observer in observers:\n            observer.on_error(error)\n        with self.lock:\n            self.exception = error")]),
    dict(expect="fire", desc="late subscriber always gets completion", names="B3-subscribe", edits=[dict(file=S,
         old="            if self.exception is not None:\n                observer.on_error(self.exception)\n            else:\n                observer.on_completed()",
         new="            observer.on_completed()")]),
    dict(expect="fire", desc="on_next without check_disposed", names="B4-check", edits=[dict(file=S,
         old="        with self.lock:\n            self.check_disposed()\n        super().on_next(value)", new="        super().on_next(value)")]),
    dict(expect="fire", desc="inner subscription removes without presence guard on observer", names="B6-inner", edits=[dict(file=I,
         old="                self.observer = None", new="                pass")]),
    dict(expect="fire", desc="completed keeps observers", names="B2-state", edits=[dict(file=S,
         old="        with self.lock:\n            observers = self.observers.copy()\n            self.observers.clear()\n\n        for observer in observers:\n            observer.on_completed()",
         new="        with self.lock:\n            observers = self.observers.copy()\n\n        for observer in observers:\n            observer.on_completed()")]),
    dict(expect="silent", desc="snapshot via list()", edits=[dict(file=S,
         old="        with self.lock:\n            observers = self.observers.copy()\n\n        for observer in observers:\n            observer.on_next(value)",
         new="        with self.lock:\n            observers = list(self.observers)\n\n        for observer in observers:\n            observer.on_next(value)")]),
]
