B = "reactivex/subject/behaviorsubject.py"
CASES = [
    dict(expect="fire", desc="pre-fix: recorded exception tested by truthiness", names="B3-subscribe", edits=[dict(file=B, old="        if ex is not None:", new="        if ex:")]),
    dict(expect="fire", desc="new subscriber not sent current value", names="B3-subscribe", edits=[dict(file=B,
         old="                self.observers.append(observer)\n                observer.on_next(self.value)", new="                self.observers.append(observer)")]),
    dict(expect="fire", desc="value stored after delivery", names="B2-state", edits=[dict(file=B,
         old="            observers = self.observers.copy()\n            self.value = value\n\n        for observer in observers:\n            observer.on_next(value)",
         new="            observers = self.observers.copy()\n\n        for observer in observers:\n            observer.on_next(value)\n        with self.lock:\n            self.value = value")]),
    dict(expect="fire", desc="stopped branch also sends value", names="B3-subscribe", edits=[dict(file=B,
         old="        if ex is not None:\n            observer.on_error(ex)\n        else:\n            observer.on_completed()",
         new="        if ex is not None:\n            observer.on_error(ex)\n        else:\n            observer.on_next(self.value)\n            observer.on_completed()")]),
    dict(expect="silent", desc="value stored before taking the snapshot", edits=[dict(file=B,
         old="            observers = self.observers.copy()\n            self.value = value", new="            self.value = value\n            observers = self.observers.copy()")]),
    dict(expect="fire", desc="seed C21/3: value stored only after delegating the broadcast to Subject", names="B2-state-before-callout", edits=[dict(file="reactivex/subject/behaviorsubject.py",
         old="        with self.lock:\n            observers = self.observers.copy()\n            self.value = value\n\n        for observer in observers:\n            observer.on_next(value)\n",
         new="        super()._on_next_core(value)\n        with self.lock:\n            self.value = value\n")]),
    dict(expect="fire", desc="seed C21-r4/1: the value broadcast hands out self.value instead of the pushed value", names="B2-state-before-callout", edits=[dict(file="reactivex/subject/behaviorsubject.py",
         old="        for observer in observers:\n            observer.on_next(value)", new="        for observer in observers:\n            observer.on_next(self.value)")]),
]
