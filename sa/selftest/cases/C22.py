R = "reactivex/subject/replaysubject.py"
CASES = [
    dict(expect="fire", desc="subscribe replays before trimming", names="RP1-subscribe-order", edits=[dict(file=R,
         old="            self._trim(self.scheduler.now)\n            self.observers.append(so)\n", new="            self.observers.append(so)\n")]),
    dict(expect="fire", desc="terminal replayed before values", names="RP1-subscribe-order", edits=[dict(file=R,
         old="            for item in self.queue:\n                so.on_next(item.value)\n\n            if self.exception is not None:\n                so.on_error(self.exception)\n            elif self.is_stopped:\n                so.on_completed()",
         new="            if self.exception is not None:\n                so.on_error(self.exception)\n            elif self.is_stopped:\n                so.on_completed()\n\n            for item in self.queue:\n                so.on_next(item.value)")]),
    dict(expect="fire", desc="time trim drops at equality", names="RP3-trim-bounds", edits=[dict(file=R,
         old="(now - self.queue[0].interval) > self._window", new="(now - self.queue[0].interval) >= self._window")]),
    dict(expect="fire", desc="buffer_size defaulted by truthiness", names="RP3-trim-bounds", edits=[dict(file=R,
         old="self.buffer_size = sys.maxsize if buffer_size is None else buffer_size", new="self.buffer_size = buffer_size or sys.maxsize")]),
    dict(expect="fire", desc="on_next delivers before buffering", names="RP2-buffer", edits=[dict(file=R,
         old="            self.queue.append(QueueItem(interval=now, value=value))\n            self._trim(now)\n\n        for observer in observers:\n            observer.on_next(value)\n",
         new="\n        for observer in observers:\n            observer.on_next(value)\n        with self.lock:\n            self.queue.append(QueueItem(interval=now, value=value))\n            self._trim(now)\n")]),
    dict(expect="fire", desc="replay in reverse order", names="RP1-subscribe-order", edits=[dict(file=R,
         old="            for item in self.queue:\n                so.on_next(item.value)", new="            for item in reversed(self.queue):\n                so.on_next(item.value)")]),
    dict(expect="silent", desc="count trim spelled the other way round", edits=[dict(file=R,
         old="        while len(self.queue) > self.buffer_size:", new="        while self.buffer_size < len(self.queue):")]),
]
