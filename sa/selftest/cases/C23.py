A = "reactivex/subject/asyncsubject.py"
CASES = [
    dict(expect="fire", desc="on_next delivers immediately", names="A1-nothing", edits=[dict(file=A,
         old="            self.value = value\n            self.has_value = True", new="            self.value = value\n            self.has_value = True\n            for o in self.observers:\n                o.on_next(value)")]),
    dict(expect="fire", desc="completion sends value without completing", names="A2-final-value", edits=[dict(file=A,
         old="            for observer in observers:\n                observer.on_next(value)\n                observer.on_completed()", new="            for observer in observers:\n                observer.on_next(value)")]),
    dict(expect="fire", desc="late subscriber after completion gets no value", names="B3-subscribe", edits=[dict(file=A,
         old="        elif has_value:\n            observer.on_next(value)\n            observer.on_completed()", new="        elif has_value:\n            observer.on_completed()")]),
    dict(expect="fire", desc="late subscriber after error also gets value", names="B3-subscribe", edits=[dict(file=A,
         old="        if ex is not None:\n            observer.on_error(ex)", new="        if ex is not None:\n            observer.on_next(value)\n            observer.on_error(ex)")]),
    dict(expect="silent", desc="completion: swap order of local reads", edits=[dict(file=A,
         old="            value = self.value\n            has_value = self.has_value\n\n        if has_value:\n            for observer in observers:", new="            has_value = self.has_value\n            value = self.value\n\n        if has_value:\n            for observer in observers:")]),
    dict(expect="fire", desc="seed C23/2: is_stopped tested outside the lock", names="B3-subscribe-branches", edits=[dict(file="reactivex/subject/asyncsubject.py",
         old="        with self.lock:\n            self.check_disposed()\n            if not self.is_stopped:\n                self.observers.append(observer)\n                return InnerSubscription(self, observer)\n\n            ex = self.exception",
         new="        self.check_disposed()\n        if not self.is_stopped:\n            with self.lock:\n                self.observers.append(observer)\n            return InnerSubscription(self, observer)\n\n        with self.lock:\n            ex = self.exception")]),
    dict(expect="fire", desc="seed C23-r4/3: the late-subscriber branch re-reads self.exception instead of its locked snapshot", names="B3-subscribe-branches", edits=[dict(file="reactivex/subject/asyncsubject.py",
         old="        if ex is not None:", new="        if self.exception is not None:")]),
]
