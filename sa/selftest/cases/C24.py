CO = "reactivex/observable/connectableobservable.py"
RC = "reactivex/operators/connectable/_refcount.py"
RP = "reactivex/operators/_replay.py"
PB = "reactivex/operators/_publish.py"
CASES = [
    dict(expect="fire", desc="connect always subscribes", names="N1-connect", edits=[dict(file=CO,
         old="        if not self.has_subscription:\n            self.has_subscription = True\n", new="        if True:\n            self.has_subscription = True\n")]),
    dict(expect="fire", desc="flag set after subscribing", names="N1-connect", edits=[dict(file=CO,
         old="            self.has_subscription = True\n\n            def dispose() -> None:\n                self.has_subscription = False\n\n            subscription = self.source.subscribe(self.subject, scheduler=scheduler)\n",
         new="            def dispose() -> None:\n                self.has_subscription = False\n\n            subscription = self.source.subscribe(self.subject, scheduler=scheduler)\n            self.has_subscription = True\n")]),
    dict(expect="fire", desc="ref_count disconnects on every unsubscribe", names="N2-ref-count", edits=[dict(file=RC,
         old="                if not count and connectable_subscription:", new="                if connectable_subscription:")]),
    dict(expect="fire", desc="ref_count never decrements", names="N2-ref-count", edits=[dict(file=RC, old="                count -= 1\n", new="")]),
    dict(expect="fire", desc="replay uses a plain Subject", names="N4-delegation", edits=[dict(file=RP,
         old="        rs: ReplaySubject[_TSource] = ReplaySubject(buffer_size, window, scheduler)\n        return source", new="        rs = __import__('reactivex').subject.Subject()\n        return source")]),
    dict(expect="fire", desc="auto_connect connects at first subscriber", names="N3-auto-connect", edits=[dict(file=CO,
         old="            should_connect = count[0] == subscriber_count and not is_connected[0]", new="            should_connect = not is_connected[0]")]),
    dict(expect="silent", desc="publish: subject variable renamed", edits=[dict(file=PB,
         old="    subject: Subject[_TSource] = Subject()\n    return source.pipe(ops.multicast(subject=subject))", new="    shared: Subject[_TSource] = Subject()\n    return source.pipe(ops.multicast(subject=shared))")]),
    dict(expect="silent", desc="ref_count: explicit zero comparison", edits=[dict(file=RC,
         old="                if not count and connectable_subscription:", new="                if count == 0 and connectable_subscription:")]),
    dict(expect="fire", desc="seed C24/2: ref_count tests count == 1 after subscribing", names="N2-ref-count", edits=[dict(file="reactivex/operators/connectable/_refcount.py",
         old="            should_connect = count == 1\n            subscription = source.subscribe(observer, scheduler=scheduler)\n            if should_connect:",
         new="            subscription = source.subscribe(observer, scheduler=scheduler)\n            if count == 1:")]),
    dict(expect="fire", desc="seed C24-r2/2: auto_connect tears the connection down when its subscribers leave", names="N3-auto-connect", edits=[dict(file="reactivex/observable/connectableobservable.py",
         old="                count[0] -= 1\n                is_connected[0] = False", new="                count[0] -= 1\n                if count[0] == 0 and connectable_subscription[0] is not None:\n                    connectable_subscription[0].dispose()\n                    connectable_subscription[0] = None\n                is_connected[0] = False")]),
    dict(expect="silent", desc="ref_count: connect before subscribing the observer (decision and connect both early)", edits=[dict(file="reactivex/operators/connectable/_refcount.py",
         old="            should_connect = count == 1\n            subscription = source.subscribe(observer, scheduler=scheduler)\n            if should_connect:\n                connectable_subscription = source.connect(scheduler)",
         new="            first = count == 1\n            subscription = source.subscribe(observer, scheduler=scheduler)\n            if first:\n                connectable_subscription = source.connect(scheduler)")]),
]
