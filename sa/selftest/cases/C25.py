D = "reactivex/disposable/disposable.py"
B = "reactivex/disposable/booleandisposable.py"
S = "reactivex/disposable/scheduleddisposable.py"
CASES = [
    dict(expect="fire", desc="Disposable.dispose without lock", names="T1-atomic", edits=[dict(file=D,
         old="        with self.lock:\n            if not self.is_disposed:\n                dispose = True\n                self.is_disposed = True",
         new="        if not self.is_disposed:\n            dispose = True\n            self.is_disposed = True")]),
    dict(expect="fire", desc="action called unconditionally", names="T2-effect", edits=[dict(file=D,
         old="        if dispose:\n            self.action()", new="        self.action()")]),
    dict(expect="fire", desc="flag checked outside lock, set inside", names="T1-atomic", edits=[dict(file=D,
         old="        with self.lock:\n            if not self.is_disposed:\n                dispose = True\n                self.is_disposed = True",
         new="        if not self.is_disposed:\n            with self.lock:\n                dispose = True\n                self.is_disposed = True")]),
    dict(expect="fire", desc="ScheduledDisposable disposes directly", names="SD1", edits=[dict(file=S,
         old="        self.scheduler.schedule(action)", new="        self.disposable.dispose()")]),
    dict(expect="fire", desc="BooleanDisposable conditional flag", names="B1", edits=[dict(file=B,
         old="        self.is_disposed = True", new="        if not self.is_disposed:\n            self.is_disposed = True\n            print('x')", count=1)]),
    dict(expect="silent", desc="Disposable.dispose: act inside the lock on the winning path", edits=[dict(file=D,
         old="        dispose = False\n        with self.lock:\n            if not self.is_disposed:\n                dispose = True\n                self.is_disposed = True\n\n        if dispose:\n            self.action()",
         new="        with self.lock:\n            if self.is_disposed:\n                return\n            self.is_disposed = True\n            self.action()")]),
    dict(expect="silent", desc="rename local flag", edits=[dict(file=D, old="dispose = False", new="should_run = False"),
         dict(file=D, old="                dispose = True", new="                should_run = True"),
         dict(file=D, old="        if dispose:", new="        if should_run:")]),
    dict(expect="fire", desc="seed C25/3: action run under the lock, flag set afterwards", names="T2-effect-on-winning-path", edits=[dict(file="reactivex/disposable/disposable.py",
         old="        dispose = False\n        with self.lock:\n            if not self.is_disposed:\n                dispose = True\n                self.is_disposed = True\n\n        if dispose:\n            self.action()",
         new="        with self.lock:\n            if self.is_disposed:\n                return\n\n            self.action()\n            self.is_disposed = True")]),
]
