CD = "reactivex/disposable/compositedisposable.py"
SD = "reactivex/disposable/serialdisposable.py"
SAD = "reactivex/disposable/singleassignmentdisposable.py"
MAD = "reactivex/disposable/multipleassignmentdisposable.py"
CASES = [
    dict(expect="fire", desc="SAD pre-fix (unlocked checks)", names="L2-read-locked", edits=[dict(file=SAD,
         old="        with self.lock:\n            if self.current:\n                raise Exception(\"Disposable has already been assigned\")\n\n            should_dispose = self.is_disposed",
         new="        if self.current:\n            raise Exception(\"Disposable has already been assigned\")\n\n        with self.lock:\n            should_dispose = self.is_disposed")]),
    dict(expect="fire", desc="SAD re-reads is_disposed after region", names="L2-read-locked", edits=[dict(file=SAD,
         old="        if should_dispose and value:", new="        if self.is_disposed and value:")]),
    dict(expect="fire", desc="Serial: old not disposed", names="L4-handoff", edits=[dict(file=SD,
         old="        if old is not None:\n            old.dispose()\n\n        if should_dispose:", new="        if should_dispose:")]),
    dict(expect="fire", desc="Serial: value disposed even when stored", names="L4-handoff", edits=[dict(file=SD,
         old="        if should_dispose:\n            value.dispose()", new="        value.dispose()")]),
    dict(expect="fire", desc="Composite.add without lock", names="L1-write-locked", edits=[dict(file=CD,
         old="        with self.lock:\n            if self.is_disposed:\n                should_dispose = True\n            else:\n                self.disposable.append(item)",
         new="        if self.is_disposed:\n            should_dispose = True\n        else:\n            self.disposable.append(item)")]),
    dict(expect="fire", desc="Composite.dispose iterates live list", names="L4-snapshot", edits=[dict(file=CD,
         old="            self.is_disposed = True\n            current_disposable = self.disposable\n            self.disposable = []\n\n        for disp in current_disposable:",
         new="            self.is_disposed = True\n\n        for disp in self.disposable:")]),
    dict(expect="fire", desc="MAD.dispose does not dispose current", names="L4-handoff", edits=[dict(file=MAD,
         old="        if old is not None:\n            old.dispose()", new="        pass")]),
    dict(expect="fire", desc="Composite.remove disposes even if absent", names="L4-handoff", edits=[dict(file=CD,
         old="        if should_dispose:\n            item.dispose()\n\n        return should_dispose", new="        item.dispose()\n\n        return should_dispose")]),
    dict(expect="fire", desc="MAD set: is_disposed read before lock", names="L2-read-locked", edits=[dict(file=MAD,
         old="        with self.lock:\n            should_dispose = self.is_disposed\n            if not should_dispose:\n                self.current = value",
         new="        should_dispose = self.is_disposed\n        with self.lock:\n            if not should_dispose:\n                self.current = value")]),
    dict(expect="silent", desc="Serial.set: early-return style", edits=[dict(file=SD,
         old="        if old is not None:\n            old.dispose()\n\n        if should_dispose:\n            value.dispose()",
         new="        if should_dispose:\n            value.dispose()\n            return\n        if old is not None:\n            old.dispose()")]),
    dict(expect="silent", desc="Composite.add: locals renamed / restructured", edits=[dict(file=CD,
         old="        should_dispose = False\n        with self.lock:\n            if self.is_disposed:\n                should_dispose = True\n            else:\n                self.disposable.append(item)\n\n        if should_dispose:\n            item.dispose()",
         new="        with self.lock:\n            late = self.is_disposed\n            if not late:\n                self.disposable.append(item)\n\n        if late:\n            item.dispose()")]),
]
