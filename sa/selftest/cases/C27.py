R = "reactivex/disposable/refcountdisposable.py"
CASES = [
    dict(expect="fire", desc="release ignores primary flag", names="R1-release-guard", edits=[dict(file=R,
         old="            if not self.count and self.is_primary_disposed:", new="            if not self.count:")]),
    dict(expect="fire", desc="inner dispose does not clear parent", names="I1-inner-once", edits=[dict(file=R,
         old="                parent = self.parent\n                self.parent = None", new="                parent = self.parent")]),
    dict(expect="fire", desc="getter increments outside lock", names="L1-write-locked", edits=[dict(file=R,
         old="        with self.lock:\n            if self.is_disposed:\n                return Disposable()\n\n            self.count += 1\n            return self.InnerDisposable(self)",
         new="        if self.is_disposed:\n            return Disposable()\n\n        self.count += 1\n        return self.InnerDisposable(self)")]),
    dict(expect="fire", desc="dispose releases regardless of count", names="R1-release-guard", edits=[dict(file=R,
         old="                if not self.count:\n                    self.is_disposed = True\n                    underlying_disposable = self.underlying_disposable",
         new="                self.is_disposed = True\n                underlying_disposable = self.underlying_disposable")]),
    dict(expect="fire", desc="release decrements twice", names="R2-counting", edits=[dict(file=R,
         old="            self.count -= 1\n", new="            self.count -= 1\n            self.count -= 1\n")]),
    dict(expect="silent", desc="release: compare to zero explicitly", edits=[dict(file=R,
         old="            if not self.count and self.is_primary_disposed:", new="            if self.is_primary_disposed and self.count == 0:")]),
]
