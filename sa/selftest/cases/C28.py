V = "reactivex/scheduler/virtualtimescheduler.py"
PQ = "reactivex/internal/priorityqueue.py"
SI = "reactivex/scheduler/scheduleditem.py"
CASES = [
    dict(expect="fire", desc="advance_to excludes items due exactly at target", names="A1-advance-bounds", edits=[dict(file=V,
         old="                if item.duetime > dt:\n                    break", new="                if item.duetime >= dt:\n                    break")]),
    dict(expect="fire", desc="start sets clock unconditionally", names="M1-clock-monotone", edits=[dict(file=V,
         old="                if item.duetime > self.now:\n                    if isinstance(self._clock, datetime):\n                        self._clock = item.duetime\n                    else:\n                        self._clock = self.to_seconds(item.duetime)\n                    spinning = 0\n",
         new="                if item.duetime != self.now:\n                    if isinstance(self._clock, datetime):\n                        self._clock = item.duetime\n                    else:\n                        self._clock = self.to_seconds(item.duetime)\n                    spinning = 0\n")]),
    dict(expect="fire", desc="enqueue without counter increment", names="O2-stable-queue", edits=[dict(file=PQ,
         old="        self.count += 1\n", new="")]),
    dict(expect="fire", desc="ScheduledItem.__lt__ reversed", names="O1-item-order", edits=[dict(file=SI,
         old="        return self.duetime < other.duetime", new="        return self.duetime > other.duetime")]),
    dict(expect="fire", desc="start invokes cancelled", names="S1-invoke-guard", edits=[dict(file=V,
         old="            if not item.is_cancelled():\n                item.invoke()\n            spinning += 1", new="            item.invoke()\n            spinning += 1")]),
    dict(expect="fire", desc="sleep without backwards check", names="M1-clock-monotone", edits=[dict(file=V,
         old="        dt: datetime = self.to_datetime(absolute)\n\n        if self.now > dt:\n            raise ArgumentOutOfRangeException()\n\n        with self._lock:",
         new="        dt: datetime = self.to_datetime(absolute)\n\n        with self._lock:")]),
    dict(expect="silent", desc="advance_to: flipped comparison spelling", edits=[dict(file=V,
         old="                if item.duetime > dt:\n                    break", new="                if dt < item.duetime:\n                    break")]),
    dict(expect="silent", desc="start: flipped comparison", edits=[dict(file=V,
         old="                if item.duetime > self.now:\n                    if isinstance(self._clock, datetime):\n                        self._clock = item.duetime\n                    else:\n                        self._clock = self.to_seconds(item.duetime)\n                    spinning = 0\n",
         new="                if self.now < item.duetime:\n                    if isinstance(self._clock, datetime):\n                        self._clock = item.duetime\n                    else:\n                        self._clock = self.to_seconds(item.duetime)\n                    spinning = 0\n")]),
    dict(expect="fire", desc="seed C42-r3/2: advance_to moves the clock to the target in a finally", names="A1-advance-bounds", edits=[dict(file="reactivex/scheduler/virtualtimescheduler.py",
         old="        with self._lock:\n            self._is_enabled = False\n            if isinstance(self._clock, datetime):\n                self._clock = dt\n            else:\n                self._clock = self.to_seconds(dt)\n",
         new="        try:\n            pass\n        finally:\n            with self._lock:\n                self._is_enabled = False\n                if isinstance(self._clock, datetime):\n                    self._clock = dt\n                else:\n                    self._clock = self.to_seconds(dt)\n")]),
]
