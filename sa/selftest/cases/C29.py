V = "reactivex/scheduler/virtualtimescheduler.py"
CASES = [
    dict(expect="fire", desc="pre-fix: self.clock += under _lock", names="A-no-reacquire", edits=[dict(file=V,
         old="                        self._clock += timedelta(microseconds=1000)", new="                        self.clock += timedelta(microseconds=1000)")]),
    dict(expect="fire", desc="advance_to calls self.stop() under lock", names="A-no-reacquire", edits=[dict(file=V,
         old="                if item.duetime > dt:\n                    break", new="                if item.duetime > dt:\n                    self.stop()\n                    break")]),
    dict(expect="fire", desc="advance_to peeks but forgets to dequeue", names="C-progress", edits=[dict(file=V,
         old="                self._queue.dequeue()\n", new="")]),
    dict(expect="fire", desc="start returns without resetting enabled flag", names="D-enabled-flag", edits=[dict(file=V,
         old="            spinning += 1\n\n        self.stop()", new="            spinning += 1\n")]),
    dict(expect="fire", desc="write to read-only now property", names="B-readonly-property", edits=[dict(file=V,
         old="        with self._lock:\n            self._is_enabled = False\n\n    def advance_to", new="        with self._lock:\n            self._is_enabled = False\n            self.now = None\n\n    def advance_to")]),
    dict(expect="silent", desc="stop inlined in start", edits=[dict(file=V,
         old="            spinning += 1\n\n        self.stop()", new="            spinning += 1\n\n        with self._lock:\n            self._is_enabled = False")]),
    dict(expect="fire", desc="seed C29/1: spin-guard bump assumes a numeric clock", names="E-clock-kind", edits=[dict(file="reactivex/scheduler/virtualtimescheduler.py",
         old="                    if isinstance(self._clock, datetime):\n                        self._clock += timedelta(microseconds=1000)\n                    else:\n                        self._clock += 1.0",
         new="                    self._clock += 1.0")]),
]
