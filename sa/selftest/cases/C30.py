T = "reactivex/scheduler/trampoline.py"
CT = "reactivex/scheduler/currentthreadscheduler.py"
CASES = [
    dict(expect="fire", desc="run(): busy caller also drains", names="N1-never-nested", edits=[dict(file=T,
         old="            else:\n                self._condition.notify()\n                return", new="            else:\n                self._condition.notify()")]),
    dict(expect="silent", desc="idle(): unlocked read of one bool in a pure getter (behaviour-preserving)", edits=[dict(file=T,
         old="        with self._lock:\n            return self._idle", new="        return self._idle")]),
    dict(expect="fire", desc="ready uses pop() (LIFO)", names="N4-fifo", edits=[dict(file=T,
         old="item = ready.popleft()", new="item = ready.pop()")]),
    dict(expect="fire", desc="items ready regardless of due time", names="N3-due-guard", edits=[dict(file=T,
         old="                    if item.duetime <= item.scheduler.now:", new="                    if True:")]),
    dict(expect="fire", desc="idle not restored in finally", names="N5-idle-restored", edits=[dict(file=T,
         old="        try:\n            self._run()\n        finally:\n            with self._lock:\n                self._idle = True\n                self._queue.clear()",
         new="        self._run()\n        with self._lock:\n            self._idle = True\n            self._queue.clear()")]),
    dict(expect="fire", desc="get_trampoline ignores thread", names="N7-per-thread", edits=[dict(file=CT,
         old="        tramp = self._tramps.get(thread)", new="        tramp = self._tramps.get(None)")]),
    dict(expect="fire", desc="invoke inside the lock", names="N2-invoke-site", edits=[dict(file=T,
         old="                        self._queue.dequeue()\n                        ready.append(item)", new="                        self._queue.dequeue()\n                        ready.append(item)\n                        item.invoke()")]),
    dict(expect="silent", desc="run(): early-return style", edits=[dict(file=T,
         old="            if self._idle:\n                self._idle = False\n            else:\n                self._condition.notify()\n                return",
         new="            if not self._idle:\n                self._condition.notify()\n                return\n            self._idle = False")]),
]
