T = "reactivex/scheduler/trampoline.py"
CT = "reactivex/scheduler/currentthreadscheduler.py"
CASES = [
    dict(expect="fire", desc="run(): busy caller also drains", names="N1-never-nested", edits=[dict(file=T,
         old="            else:\n                self._condition.notify()\n                return", new="            else:\n                self._condition.notify()")]),
    dict(expect="silent", desc="idle(): unlocked read of one bool in a pure getter (behaviour-preserving)", edits=[dict(file=T,
         old="        with self._lock:\n            return self._idle", new="        return self._idle")]),
    dict(expect="fire", desc="ready uses pop() (LIFO)", names="N4-fifo", edits=[dict(file=T,
         old="item = ready.popleft()", new="item = ready.pop()")]),
    dict(expect="fire", desc="items ready regardless of due time", names="N3-due-guard", edits=[dict(file=T,
         old="                    if item.duetime <= item.scheduler.now:", new="                    if True:")]),
    dict(expect="fire", desc="idle not restored in finally", names="N5-idle-restored", edits=[dict(file=T,
         old="        try:\n            self._run()\n        except BaseException:\n            with self._lock:\n                self._idle = True\n                self._queue.clear()\n            raise\n",
         new="        self._run()\n")]),
    dict(expect="fire", desc="get_trampoline ignores thread", names="N7-per-thread", edits=[dict(file=CT,
         old="        tramp = self._tramps.get(thread)", new="        tramp = self._tramps.get(None)")]),
    dict(expect="fire", desc="invoke inside the lock", names="N2-invoke-site", edits=[dict(file=T,
         old="                        self._queue.dequeue()\n                        ready.append(item)", new="                        self._queue.dequeue()\n                        ready.append(item)\n                        item.invoke()")]),
    dict(expect="silent", desc="run(): early-return style", edits=[dict(file=T,
         old="            if self._idle:\n                self._idle = False\n            else:\n                self._condition.notify()\n                return",
         new="            if not self._idle:\n                self._condition.notify()\n                return\n            self._idle = False")]),
    dict(expect="fire", desc="pre-fix 6c2ef05: drain stops on an empty queue, idle restored in run()'s finally", names="N9-idle-with-emptiness", edits=[
         dict(file=T, old="        except BaseException:\n            with self._lock:\n                self._idle = True\n                self._queue.clear()\n            raise\n",
              new="        finally:\n            with self._lock:\n                self._idle = True\n                self._queue.clear()\n"),
         dict(file=T, old="                    self._idle = True\n                    break", new="                    break")]),
    dict(expect="fire", desc="idle set after leaving the emptiness critical section", names="N9-idle-with-emptiness", edits=[
         dict(file=T, old="                    self._idle = True\n                    break", new="                    break"),
         dict(file=T, old="                if seconds > 0.0:\n                    self._condition.wait(seconds)\n", new="                if seconds > 0.0:\n                    self._condition.wait(seconds)\n        with self._lock:\n            self._idle = True\n")]),
    dict(expect="fire", desc="failure path no longer restores idle", names="N5-idle-restored", edits=[
         dict(file=T, old="        except BaseException:\n            with self._lock:\n                self._idle = True\n                self._queue.clear()\n            raise\n",
              new="        except BaseException:\n            with self._lock:\n                self._queue.clear()\n            raise\n")]),
    dict(expect="fire", names="N5-idle-restored", desc="seed C30-r4/2: the failure path resets the trampoline only for Exception (KeyboardInterrupt / CancelledError leave it busy)", edits=[
         dict(file=T, old="        try:\n            self._run()\n        except BaseException:\n            with self._lock:\n                self._idle = True\n                self._queue.clear()\n            raise\n",
              new="        try:\n            self._run()\n        except Exception:\n            with self._lock:\n                self._idle = True\n                self._queue.clear()\n            raise\n")]),
    dict(expect="fire", desc="seed C30-r4/1: schedule() stamps immediate actions with DELTA_ZERO instead of now", names="N10-immediate-is-now", edits=[dict(file="reactivex/scheduler/trampolinescheduler.py",
         old="        return self.schedule_absolute(self.now, action, state=state)", new="        return self.schedule_absolute(DELTA_ZERO, action, state=state)")]),
]
