SO = "reactivex/observer/scheduledobserver.py"
OO = "reactivex/observer/observeonobserver.py"
CASES = [
    dict(expect="fire", desc="ensure_active before enqueue", names="Q2-enqueue-before-activate", edits=[dict(file=OO,
         old="        super()._on_next_core(value)\n        self.ensure_active()", new="        self.ensure_active()\n        super()._on_next_core(value)")]),
    dict(expect="fire", desc="release outside the emptiness region", names="Q4-release-with-emptiness", edits=[dict(file=SO,
         old="        with self.lock:\n            if parent.queue:\n                work = parent.queue.pop(0)\n            else:\n                parent.is_acquired = False\n                return",
         new="        with self.lock:\n            empty = not parent.queue\n            if not empty:\n                work = parent.queue.pop(0)\n        if empty:\n            parent.is_acquired = False\n            return")]),
    dict(expect="fire", desc="pop from the back", names="Q4-release-with-emptiness", edits=[dict(file=SO,
         old="work = parent.queue.pop(0)", new="work = parent.queue.pop()")]),
    dict(expect="fire", desc="fault not latched", names="Q5-fault-latch", edits=[dict(file=SO,
         old="                parent.queue = []\n                parent.has_faulted = True\n            raise", new="                parent.queue = []\n            raise")]),
    dict(expect="fire", desc="ensure_active ignores is_acquired", names="Q3-ownership", edits=[dict(file=SO,
         old="                is_owner = not self.is_acquired", new="                is_owner = True")]),
    dict(expect="fire", desc="on_completed action delivers on_error", names="Q1-enqueue-own-kind", edits=[dict(file=SO,
         old="            self.observer.on_completed()", new="            self.observer.on_error(Exception())")]),
    dict(expect="fire", desc="reschedule before delivering", names="Q4-release-with-emptiness", edits=[dict(file=SO,
         old="        try:\n            work()\n", new="        self.scheduler.schedule(self.run)\n        try:\n            work()\n"), dict(file=SO,
         old="            raise\n\n        self.scheduler.schedule(self.run)\n", new="            raise\n")]),
    dict(expect="silent", desc="run: early-return style", edits=[dict(file=SO,
         old="            if parent.queue:\n                work = parent.queue.pop(0)\n            else:\n                parent.is_acquired = False\n                return",
         new="            if not parent.queue:\n                parent.is_acquired = False\n                return\n            work = parent.queue.pop(0)")]),
]
