TS = "reactivex/scheduler/eventloop/asynciothreadsafescheduler.py"
CASES = [
    dict(expect="fire", desc="pre-fix: RuntimeError path returns True", names="P1-predicate-returns", edits=[dict(file=TS,
         old="            return False\n", new="            return True\n")]),
    dict(expect="fire", desc="dispose cancels directly, no predicate", names="P2-cancel", edits=[dict(file=TS,
         old="            if self._on_self_loop_or_not_running():\n                handle.cancel()\n                return\n",
         new="            handle.cancel()\n            return\n")]),
    dict(expect="fire", desc="marshalled cancel not awaited", names="P2-cancel", edits=[dict(file=TS,
         old="            self._loop.call_soon_threadsafe(cancel_handle)\n            future.result()\n\n        return CompositeDisposable(sad, Disposable(dispose))\n\n    def schedule_relative",
         new="            self._loop.call_soon_threadsafe(cancel_handle)\n\n        return CompositeDisposable(sad, Disposable(dispose))\n\n    def schedule_relative")]),
    dict(expect="fire", desc="schedule uses call_soon (not threadsafe)", names="P3-threadsafe-entry", edits=[dict(file=TS,
         old="        handle = self._loop.call_soon_threadsafe(interval)", new="        handle = self._loop.call_soon(interval)")]),
    dict(expect="fire", desc="predicate: True when loop is running", names="P1-predicate-returns", edits=[dict(file=TS,
         old="        if not self._loop.is_running():\n            return True", new="        if self._loop.is_running():\n            return True")]),
    dict(expect="fire", desc="dispose not in returned composite", names="P4-held-and-delay", edits=[dict(file=TS,
         old="        return CompositeDisposable(sad, Disposable(dispose))\n\n    def schedule_relative", new="        return CompositeDisposable(sad)\n\n    def schedule_relative")]),
    dict(expect="silent", desc="predicate: nested style", edits=[dict(file=TS,
         old="        if not self._loop.is_running():\n            return True\n", new="        running = self._loop.is_running()\n        if not self._loop.is_running():\n            return True\n")]),
]
