IM = "reactivex/scheduler/immediatescheduler.py"
TO = "reactivex/scheduler/timeoutscheduler.py"
NT = "reactivex/scheduler/newthreadscheduler.py"
CASES = [
    dict(expect="fire", desc="immediate: delayed action runs at once", names="I1-immediate", edits=[dict(file=IM,
         old="        if duetime > DELTA_ZERO:\n            raise WouldBlockException()\n", new="")]),
    dict(expect="fire", desc="timeout: timer delay ignores duetime", names="T1-timeout", edits=[dict(file=TO,
         old="        timer = Timer(seconds, interval)", new="        timer = Timer(0, interval)")]),
    dict(expect="fire", desc="timeout: cancel not held", names="T1-timeout", edits=[dict(file=TO,
         old="        timer = Timer(seconds, interval)\n        timer.daemon = True\n        timer.start()\n\n        def dispose() -> None:\n            timer.cancel()\n\n        return CompositeDisposable(sad, Disposable(dispose))",
         new="        timer = Timer(seconds, interval)\n        timer.daemon = True\n        timer.start()\n\n        def dispose() -> None:\n            timer.cancel()\n\n        return CompositeDisposable(sad)")]),
    dict(expect="fire", desc="new thread: relative forwards no delay", names="D1-delegation", edits=[dict(file=NT,
         old="        return scheduler.schedule_relative(duetime, action, state)", new="        return scheduler.schedule_relative(0, action, state)")]),
    dict(expect="fire", desc="absolute form passes absolute time as delay", names="D1-delegation", edits=[dict(file=TO,
         old="        return self.schedule_relative(duetime - self.now, action, state)", new="        return self.schedule_relative(duetime, action, state)")]),
    dict(expect="silent", desc="immediate: comparison flipped", edits=[dict(file=IM,
         old="        if duetime > DELTA_ZERO:", new="        if DELTA_ZERO < duetime:")]),
]
