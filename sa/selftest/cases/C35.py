PS = "reactivex/scheduler/periodicscheduler.py"
NT = "reactivex/scheduler/newthreadscheduler.py"
TM = "reactivex/observable/timer.py"
CASES = [
    dict(expect="fire", desc="periodic: state not threaded", names="P1-state-threading", edits=[dict(file=PS,
         old="                state = action(state)", new="                action(state)")]),
    dict(expect="fire", desc="periodic: disposed test removed", names="P2-stops-on-dispose", edits=[dict(file=PS,
         old="            if disp.is_disposed:\n                return None\n", new="")]),
    dict(expect="fire", desc="periodic: exception swallowed", names="P3-stops-after-raise", edits=[dict(file=PS,
         old="            except Exception:\n                disp.dispose()\n                raise", new="            except Exception:\n                disp.dispose()\n                return None")]),
    dict(expect="fire", desc="new thread: action before disposed check", names="P2-stops-on-dispose", edits=[dict(file=NT,
         old="                if disposed.is_set():\n                    return\n\n                time: datetime = self.now\n\n                state = action(state)",
         new="                time: datetime = self.now\n\n                state = action(state)\n                if disposed.is_set():\n                    return")]),
    dict(expect="fire", desc="periodic: next tick a full period after the action finished", names="P4-period", edits=[dict(file=PS,
         old="            time = seconds - (scheduler.now - now).total_seconds()", new="            time = seconds")]),
    dict(expect="fire", desc="re-scheduled tick not held", names="P2-stops-on-dispose", edits=[dict(file=PS,
         old="            disp.disposable = scheduler.schedule_relative(time, periodic, state=state)", new="            scheduler.schedule_relative(time, periodic, state=state)")]),
    dict(expect="silent", desc="periodic: early return inverted", edits=[dict(file=PS,
         old="            if disp.is_disposed:\n                return None\n", new="            if not (not disp.is_disposed):\n                return None\n")]),
    dict(expect="fire", desc="seed C35-r3/1: VirtualTimeScheduler.schedule_relative overdue fast path forgets the state", names="P6-state-forwarded", edits=[dict(file="reactivex/scheduler/virtualtimescheduler.py",
         old="        time: typing.AbsoluteTime = self.add(self._clock, duetime)\n        return self.schedule_absolute(time, action, state=state)",
         new="        if self.to_seconds(duetime) < 0:\n            return self.schedule(action)\n\n        time: typing.AbsoluteTime = self.add(self._clock, duetime)\n        return self.schedule_absolute(time, action, state=state)")]),
    dict(expect="fire", desc="TimeoutScheduler.schedule_relative zero-delay path drops the state", names="P6-state-forwarded", edits=[dict(file="reactivex/scheduler/timeoutscheduler.py",
         old="            return self.schedule(action, state)", new="            return self.schedule(action)")]),
    dict(expect="fire", desc="seed C35-r4/3: timer(d, p) advances its due time from now instead of the previous due time", names="P7-grid", edits=[dict(file="reactivex/observable/timer.py",
         old="                dt = dt + scheduler.to_timedelta(p)\n                if dt <= now:", new="                dt = now + scheduler.to_timedelta(p)\n                if dt <= now:")]),
    dict(expect="fire", desc="seed C28-r4/3: periodic elapsed time computed as before - after", names="P8-elapsed-sign", edits=[dict(file="reactivex/scheduler/periodicscheduler.py",
         old="(scheduler.now - now).total_seconds()", new="(now - scheduler.now).total_seconds()")]),
]
