SCH = "reactivex/scheduler/scheduler.py"
BAS = "reactivex/internal/basic.py"
CON = "reactivex/internal/constants.py"
CASES = [
    dict(expect="fire", desc="default_now naive", names="Z1-aware", edits=[dict(file=BAS, old="return datetime.now(timezone.utc)", new="return datetime.now()")]),
    dict(expect="fire", desc="to_datetime naive fromtimestamp", names="Z1-aware", edits=[dict(file=SCH,
         old="value = datetime.fromtimestamp((value), tz=timezone.utc)", new="value = datetime.fromtimestamp((value))")]),
    dict(expect="fire", desc="to_timedelta in milliseconds", names="Z2-epoch", edits=[dict(file=SCH,
         old="value = timedelta(seconds=value)", new="value = timedelta(milliseconds=value)")]),
    dict(expect="fire", desc="to_seconds truncates", names="Z2-epoch", edits=[dict(file=SCH,
         old="value = value.total_seconds()", new="value = float(value.seconds)")]),
    dict(expect="fire", desc="epoch not aware", names="Z", edits=[dict(file=CON,
         old="UTC_ZERO = datetime.fromtimestamp(0, tz=timezone.utc)", new="UTC_ZERO = datetime.utcfromtimestamp(0)")]),
    dict(expect="silent", desc="to_datetime: value + UTC_ZERO", edits=[dict(file=SCH, old="value = UTC_ZERO + value", new="value = value + UTC_ZERO")]),
    dict(expect="fire", desc="seed C36/1: to_datetime relabels aware datetimes", names="Z3-no-relabel", edits=[dict(file="reactivex/scheduler/scheduler.py",
         old="            value = UTC_ZERO + value", new="            value = (UTC_ZERO + value).replace(tzinfo=timezone.utc)")]),
    dict(expect="fire", desc="seed C36/3: epoch constant built from a naive literal in the local zone", names="Z2-epoch", edits=[dict(file="reactivex/internal/constants.py",
         old="UTC_ZERO = datetime.fromtimestamp(0, tz=timezone.utc)", new="UTC_ZERO = datetime(1970, 1, 1).astimezone(timezone.utc)")]),
    dict(expect="fire", desc="mutant: TimeoutScheduler.schedule_absolute no longer converts its due time", names="Z4-absolute-converted", edits=[dict(file="reactivex/scheduler/timeoutscheduler.py",
         old="        duetime = self.to_datetime(duetime)\n", new="")]),
]
