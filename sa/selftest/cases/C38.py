M = "reactivex/observable/marbles.py"
CASES = [
    dict(expect="fire", desc="element advances one frame regardless of width", names="M2-frame-accounting", edits=[dict(file=M,
         old="            iframe += len(element)", new="            iframe += 1")]),
    dict(expect="fire", desc="timestamp computed after tick increment", names="M1-timestamp-first", edits=[dict(file=M,
         old="        timestamp = iframe * timespan + time_shift\n        group, ticks, comma_error, element = results\n",
         new="        group, ticks, comma_error, element = results\n        if ticks:\n            iframe += 0\n        timestamp = iframe * timespan + time_shift\n")]),
    dict(expect="fire", desc="group does not advance by its width", names="M2-frame-accounting", edits=[dict(file=M,
         old="            iframe += len(group)", new="            iframe += len(elements)")]),
    dict(expect="fire", desc="comma allowed in elements", names="M4-regex", edits=[dict(file=M,
         old='pattern_element = r"(#|\\||[^-,()#\\|]+)"', new='pattern_element = r"(#|\\||[^-()#\\|]+)"')]),
    dict(expect="fire", desc="element alternative tried before group", names="M4-regex", edits=[dict(file=M,
         old="        pattern_group,\n        pattern_ticks,\n        pattern_comma_error,\n        pattern_element,", new="        pattern_ticks,\n        pattern_group,\n        pattern_comma_error,\n        pattern_element,")]),
    dict(expect="fire", desc="no stop check for single elements", names="M3-emission", edits=[dict(file=M,
         old="            check_stopped(element)\n            message = map_element(timestamp, element)", new="            message = map_element(timestamp, element)")]),
    dict(expect="fire", desc="hot ignores duetime", names="M5-forwarding", edits=[dict(file=M, old="        time_shift=duetime,\n", new="")]),
    dict(expect="silent", desc="timestamp formula operand order", edits=[dict(file=M,
         old="        timestamp = iframe * timespan + time_shift", new="        timestamp = time_shift + timespan * iframe")]),
]
