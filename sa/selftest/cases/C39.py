FIL = "reactivex/observable/mixins/filtering.py"
TR = "reactivex/observable/mixins/transformation.py"
OPS = "reactivex/operators/__init__.py"
TB = "reactivex/observable/mixins/time_based.py"
MC = "reactivex/observable/mixins/multicasting.py"
CASES = [
    dict(expect="fire", desc="fluent take delegates to take_last", names="F1-same-operator", edits=[dict(file=FIL,
         old="        return self._as_observable().pipe(ops.take(count))", new="        return self._as_observable().pipe(ops.take_last(count))")]),
    dict(expect="fire", desc="ops.slice swaps start/stop to impl", names="F3-impl-forwarding", edits=[dict(file=OPS,
         old="    return slice_(start, stop, step)", new="    return slice_(stop, start, step)")]),
    dict(expect="fire", desc="fluent replay drops window", names="F2-forwarding", edits=[dict(file=MC,
         old="                ops.replay(buffer_size, window, scheduler=scheduler)", new="                ops.replay(buffer_size, scheduler=scheduler)")]),
    dict(expect="fire", desc="fluent replay swaps buffer_size/window", names="F2-forwarding", edits=[dict(file=MC,
         old="            ops.replay(buffer_size, window, mapper=mapper, scheduler=scheduler)", new="            ops.replay(window, buffer_size, mapper=mapper, scheduler=scheduler)")]),
    dict(expect="fire", desc="do-finding key is specific: another method delegating wrongly still fires", names="F1-same-operator", edits=[dict(file=MC,
         old="        return self._as_observable().pipe(ops.share())", new="        return self._as_observable().pipe(ops.publish())")]),
    dict(expect="silent", desc="fluent take: keyword spelling", edits=[dict(file=FIL,
         old="        return self._as_observable().pipe(ops.take(count))", new="        return self._as_observable().pipe(ops.take(count=count))")]),
    dict(expect="silent", desc="fluent take: applied form", edits=[dict(file=FIL,
         old="        return self._as_observable().pipe(ops.take(count))", new="        return ops.take(count)(self._as_observable())")]),
    dict(expect="fire", desc="seed C39-r2/1: fluent reduce drops an explicit None seed", names="F2-forwarding", edits=[dict(file="reactivex/observable/mixins/transformation.py",
         old="        if seed is NotSet:", new="        if seed is NotSet or seed is None:")]),
    dict(expect="fire", desc="seed C39-r3/3: fluent last_or_default takes (predicate, default_value)", names="F5-positional-roles", edits=[dict(file="reactivex/observable/mixins/filtering.py",
         old="        default_value: Any = None,\n        predicate: typing.Predicate[_T] | None = None,\n    ) -> Observable[Any]:\n        \"\"\"Return last element or default value.",
         new="        predicate: typing.Predicate[_T] | None = None,\n        default_value: Any = None,\n    ) -> Observable[Any]:\n        \"\"\"Return last element or default value.")]),
    dict(expect="fire", desc="seed C39-r3/2: ConnectableObservable defines its own ref_count()", names="F4-no-override", edits=[dict(file="reactivex/observable/connectableobservable.py",
         old="    def auto_connect(self, subscriber_count: int = 1) -> Observable[_T]:", new="    def ref_count(self) -> Observable[_T]:\n        from reactivex.operators.connectable._refcount import ref_count_\n\n        return ref_count_()(self)\n\n    def auto_connect(self, subscriber_count: int = 1) -> Observable[_T]:")]),
]
