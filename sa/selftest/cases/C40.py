US = "reactivex/observable/using.py"
FA = "reactivex/operators/_finallyaction.py"
DO = "reactivex/operators/_do.py"
CASES = [
    dict(expect="fire", desc="using: failure path drops the resource", names="U1-resource-held", edits=[dict(file=US,
         old="            return CompositeDisposable(d, disp)", new="            return d")]),
    dict(expect="fire", desc="using: resource bound after observable factory", names="U1-resource-held", edits=[dict(file=US,
         old="            if resource is not None:\n                disp = resource\n\n            source = observable_factory(resource)",
         new="            source = observable_factory(resource)\n            if resource is not None:\n                disp = resource")]),
    dict(expect="fire", desc="finally_action: action outside finally", names="F1-finally-sites", edits=[dict(file=FA,
         old="                try:\n                    subscription.dispose()\n                finally:\n                    action()", new="                subscription.dispose()\n                action()")]),
    dict(expect="fire", desc="do_finally: dispose hook ignores the flag", names="D1-once-flag", edits=[dict(file=DO,
         old="            if not self.was_invoked[0]:\n                finally_action()\n                self.was_invoked[0] = True", new="            finally_action()\n            self.was_invoked[0] = True")]),
    dict(expect="fire", desc="do_action: on_next callback swallows element", names="A1-forward-unchanged", edits=[dict(file=DO,
         old="                except Exception as e:  # pylint: disable=broad-except\n                    observer.on_error(e)\n\n                observer.on_next(x)",
         new="                except Exception as e:  # pylint: disable=broad-except\n                    observer.on_error(e)")]),
    dict(expect="fire", desc="do_on_terminate: completes on error", names="A1-forward-unchanged", edits=[dict(file=DO,
         old="            else:\n                observer.on_error(exception)", new="            else:\n                observer.on_completed()")]),
    dict(expect="fire", desc="do_finally: hook not added", names="D1-once-flag", edits=[dict(file=DO,
         old="        composite_disposable.add(OnDispose(was_invoked))\n", new="")]),
    dict(expect="silent", desc="do_action: early-return style", edits=[dict(file=DO,
         old="            if not on_completed:\n                observer.on_completed()\n            else:\n                try:\n                    on_completed()\n                except Exception as e:  # pylint: disable=broad-except\n                    observer.on_error(e)\n\n                observer.on_completed()",
         new="            if not on_completed:\n                observer.on_completed()\n                return\n            try:\n                on_completed()\n            except Exception as e:  # pylint: disable=broad-except\n                observer.on_error(e)\n            observer.on_completed()")]),
    dict(expect="fire", desc="pre-fix: do_after_next drops the scheduler", names="A2-scheduler-forwarded", edits=[dict(file="reactivex/operators/_do.py",
         old="        return source.subscribe(\n            on_next, observer.on_error, observer.on_completed, scheduler=scheduler\n        )\n\n    return Observable(subscribe)\n\n\ndef do_on_subscribe",
         new="        return source.subscribe(on_next, observer.on_error, observer.on_completed)\n\n    return Observable(subscribe)\n\n\ndef do_on_subscribe")]),
]
