FF = "reactivex/observable/fromfuture.py"
FC = "reactivex/observable/fromcallback.py"
TA = "reactivex/observable/toasync.py"
TF = "reactivex/operators/_tofuture.py"
RUN = "reactivex/run.py"
CASES = [
    dict(expect="fire", desc="from_callback pre-fix (mapper branch never completes)", names="T1-single-shot", edits=[dict(file=FC,
         old="                        observer.on_next(results)\n\n                observer.on_completed()", new="                        observer.on_next(results)\n\n                    observer.on_completed()")]),
    dict(expect="fire", desc="from_future: no completion after result", names="T1-single-shot", edits=[dict(file=FF,
         old="                observer.on_next(value)\n                observer.on_completed()", new="                observer.on_next(value)")]),
    dict(expect="fire", desc="from_future: CancelledError not handled", names="T2-wiring", edits=[dict(file=FF,
         old="            except asyncio.CancelledError as ex:  # pylint: disable=broad-except\n                # asyncio.CancelledError is a BaseException, so need to cast\n                observer.on_error(cast(Exception, ex))\n", new="")]),
    dict(expect="fire", desc="to_async: error also completes", names="T1-single-shot", edits=[dict(file=TA,
         old="                subject.on_error(ex)\n                return", new="                subject.on_error(ex)")]),
    dict(expect="fire", desc="to_future: result by value truthiness", names="T3-blocking-result", edits=[dict(file=TF,
         old="                if has_value:\n                    future.set_result", new="                if last_value:\n                    future.set_result")]),
    dict(expect="fire", desc="run: empty sequence returns None", names="T3-blocking-result", edits=[dict(file=RUN,
         old="    if not has_result:\n        raise SequenceContainsNoElementsError\n", new="")]),
    dict(expect="fire", desc="from_future: dispose does not cancel", names="T2-wiring", edits=[dict(file=FF,
         old="            if future:\n                future.cancel()", new="            pass")]),
    dict(expect="silent", desc="from_future: early-return style in done", edits=[dict(file=FF,
         old="                observer.on_error(cast(Exception, ex))\n            else:\n                observer.on_next(value)\n                observer.on_completed()",
         new="                observer.on_error(cast(Exception, ex))\n                return\n            else:\n                observer.on_next(value)\n                observer.on_completed()")]),
    dict(expect="fire", desc="pre-fix: run() tests the recorded error by truthiness", names="T3-blocking-result", edits=[dict(file=RUN,
         old="    if exception is not None:", new="    if exception:")]),
    dict(expect="silent", desc="run(): `is None` early form", edits=[dict(file=RUN,
         old="    if exception is not None:\n        raise cast(Exception, exception)", new="    if exception is None:\n        pass\n    else:\n        raise cast(Exception, exception)")]),
    dict(expect="fire", desc="seed C41-r2/3: run() publishes done before storing the exception", names="T3-blocking-result", edits=[dict(file=RUN,
         old="        exception = error\n        done = True", new="        done = True\n        exception = error")]),
    dict(expect="fire", desc="mutant: to_future leaves future_ctor_ unassigned when a constructor is given", names="W0-wellformed", edits=[dict(file="reactivex/operators/_tofuture.py",
         old="        future_ctor_ = future_ctor\n", new="        pass\n")]),
    dict(expect="fire", desc="seed C12-r4/2: from_future cancels only a future that is already done", names="T2-wiring", edits=[dict(file="reactivex/observable/fromfuture.py",
         old="            if future:\n                future.cancel()", new="            if future.done():\n                future.cancel()")]),
    dict(expect="fire", desc="mutant: run() ignores its scheduler argument", names="T4-bridge-scheduler", edits=[dict(file="reactivex/run.py",
         old="source.subscribe(on_next, on_error, on_completed, scheduler=scheduler)", new="source.subscribe(on_next, on_error, on_completed)")]),
]
