C = "reactivex/scheduler/catchscheduler.py"
CASES = [
    dict(expect="fire", desc="schedule_relative passes raw action", names="W1-wrap-coverage", edits=[dict(file=C,
         old="        action = self._wrap(action)\n        return self._scheduler.schedule_relative(duetime, action, state=state)",
         new="        return self._scheduler.schedule_relative(duetime, action, state=state)")]),
    dict(expect="fire", desc="wrapped action gets the raw scheduler", names="R1-recursive", edits=[dict(file=C,
         old="                return action(parent._get_recursive_wrapper(self), state)", new="                return action(self, state)")]),
    dict(expect="fire", desc="always swallow", names="H1-handler-semantics", edits=[dict(file=C,
         old="                if not parent._handler(ex):\n                    raise\n                return Disposable()", new="                parent._handler(ex)\n                return Disposable()")]),
    dict(expect="fire", desc="inverted handler result", names="H1-handler-semantics", edits=[dict(file=C,
         old="                if not parent._handler(ex):\n                    raise", new="                if parent._handler(ex):\n                    raise")]),
    dict(expect="fire", desc="periodic: failed latch removed", names="P1-periodic", edits=[dict(file=C,
         old="            if failed:\n                return None\n", new="")]),
    dict(expect="fire", desc="periodic: swallow path keeps ticking", names="P1-periodic", edits=[dict(file=C,
         old="                disp.dispose()\n                return None", new="                return None")]),
    dict(expect="silent", desc="schedule: inline wrap", edits=[dict(file=C,
         old="        action = self._wrap(action)\n        return self._scheduler.schedule(action, state=state)", new="        return self._scheduler.schedule(self._wrap(action), state=state)")]),
]
