MG = "reactivex/operators/_merge.py"
ZP = "reactivex/observable/zip.py"
CL = "reactivex/observable/combinelatest.py"
WL = "reactivex/observable/withlatestfrom.py"
AMB = "reactivex/operators/_amb.py"
WT = "reactivex/operators/_windowwithtime.py"
CASES = [
    dict(expect="fire", desc="merge_all: raw outer on_error (pre-fix)", names="merge_all_", edits=[dict(file=MG,
         old="        m.disposable = source.subscribe(\n            on_next, on_error, on_completed, scheduler=scheduler\n        )",
         new="        m.disposable = source.subscribe(\n            on_next, observer.on_error, on_completed, scheduler=scheduler\n        )")]),
    dict(expect="fire", desc="zip: completed without lock (pre-fix)", names="zip_", edits=[dict(file=ZP,
         old="        @synchronized(lock)\n        def completed(i: int)", new="        def completed(i: int)")]),
    dict(expect="fire", desc="combine_latest: on_next without lock", names="combine_latest_", edits=[dict(file=CL,
         old="                with lock:\n                    values[i] = x\n                    _next(i)", new="                values[i] = x\n                _next(i)")]),
    dict(expect="fire", desc="with_latest_from: child error raw", names="with_latest_from_", edits=[dict(file=WL,
         old="                    on_next, on_error, scheduler=scheduler", new="                    on_next, observer.on_error, scheduler=scheduler")]),
    dict(expect="fire", desc="amb: choice made without lock", names="amb_", edits=[dict(file=AMB,
         old="        def on_error_right(err: Exception) -> None:\n            with left_source.lock:\n                choice_right()", new="        def on_error_right(err: Exception) -> None:\n            choice_right()")]),
    dict(expect="fire", desc="window_with_time: timer action not synchronized", names="window_with_time_", edits=[dict(file=WT,
         old="            @synchronized(source.lock)\n            def action(", new="            def action(")]),
    dict(expect="fire", desc="merge inner on_next on a different lock", names="K2-one-lock", edits=[dict(file=MG,
         old="            on_next = synchronized(source.lock)(observer.on_next)\n            on_error = synchronized(source.lock)(observer.on_error)\n            subscription.disposable",
         new="            on_next = synchronized(xs.lock)(observer.on_next)\n            on_error = synchronized(source.lock)(observer.on_error)\n            subscription.disposable")]),
    dict(expect="silent", desc="zip: with-block instead of decorator", edits=[dict(file=ZP,
         old="        @synchronized(lock)\n        def completed(i: int) -> None:\n            is_completed[i] = True\n            if len(queues[i]) == 0:\n                observer.on_completed()",
         new="        def completed(i: int) -> None:\n            with lock:\n                is_completed[i] = True\n                if len(queues[i]) == 0:\n                    observer.on_completed()")]),
    dict(expect="silent", desc="combine_latest: on_error via synchronized wrapper", edits=[dict(file=CL,
         old="        def on_error(error: Exception) -> None:\n            with lock:\n                observer.on_error(error)\n",
         new="        from reactivex.internal.concurrency import synchronized\n        on_error = synchronized(lock)(observer.on_error)\n")]),
    dict(expect="fire", desc="seed C43-r3/1: Observable.lock allocated lazily", names="K5-one-lock-object", edits=[dict(file="reactivex/observable/observable.py",
         old="        self.lock = threading.RLock()\n        self._subscribe = subscribe\n", new="        self._subscribe = subscribe\n\n    @property\n    def lock(self):\n        if '_lock' not in self.__dict__:\n            self.__dict__['_lock'] = threading.RLock()\n        return self.__dict__['_lock']\n")]),
    dict(expect="fire", desc="seed C43-r3b/3: window_with_time forwards elements to a snapshot of the windows outside the lock", names="K6-windows-covered", edits=[dict(file="reactivex/operators/_windowwithtime.py",
         old="            with source.lock:\n                for s in queue:\n                    s.on_next(x)", new="            with source.lock:\n                windows = list(queue)\n            for s in windows:\n                s.on_next(x)")]),
    dict(expect="fire", desc="seed C13-r4/3: Observable.lock is a plain Lock", names="K5-one-lock-object", edits=[dict(file="reactivex/observable/observable.py",
         old="self.lock = threading.RLock()", new="self.lock = threading.Lock()")]),
    dict(expect="fire", desc="mutant: one amb handler takes the other source's lock", names="K2-one-lock", edits=[dict(file="reactivex/operators/_amb.py",
         old="        def on_next_left(value: _T) -> None:\n            with left_source.lock:", new="        def on_next_left(value: _T) -> None:\n            with obs.lock:")]),
]
