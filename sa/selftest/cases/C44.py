RC = "reactivex/operators/connectable/_refcount.py"
RP = "reactivex/operators/_replay.py"
PV = "reactivex/operators/_publishvalue.py"
DWM = "reactivex/operators/_delaywithmapper.py"
CUR = "reactivex/internal/curry.py"
CASES = [
    dict(expect="fire", desc="ref_count: count at factory level (pre-fix)", names="count", edits=[
        dict(file=RC, old="        connectable_subscription: abc.DisposableBase | None = None\n        count = 0\n\n", new=""),
        dict(file=RC, old="    def ref_count(source: ConnectableObservable[_T]) -> Observable[_T]:\n",
             new="    connectable_subscription: abc.DisposableBase | None = None\n    count = 0\n\n    def ref_count(source: ConnectableObservable[_T]) -> Observable[_T]:\n")]),
    dict(expect="fire", desc="replay: subject at factory level (pre-fix)", names="ReplaySubject", edits=[dict(file=RP,
         old="    def replay(source: Observable[_TSource]) -> ConnectableObservable[_TSource]:\n        rs: ReplaySubject[_TSource] = ReplaySubject(buffer_size, window, scheduler)\n        return source.pipe(ops.multicast(subject=rs))\n\n    return replay",
         new="    rs: ReplaySubject[_TSource] = ReplaySubject(buffer_size, window, scheduler)\n    return ops.multicast(subject=rs)")]),
    dict(expect="fire", desc="publish_value: subject at factory level (pre-fix)", names="BehaviorSubject", edits=[dict(file=PV,
         old="    def publish_value(source: Observable[_T1]) -> ConnectableObservable[_T1]:\n        subject = BehaviorSubject(initial_value)\n        return source.pipe(ops.multicast(subject))\n\n    return publish_value",
         new="    subject = BehaviorSubject(initial_value)\n    return ops.multicast(subject)")]),
    dict(expect="fire", desc="curry_flip memoises applications", names="E1-curry-stateless", edits=[dict(file=CUR,
         old="        def _wrap_curried(curry_arg: _A) -> _B:\n            return fun(curry_arg, *args, **kwargs)",
         new="        cache = {}\n\n        def _wrap_curried(curry_arg: _A) -> _B:\n            if 'r' not in cache:\n                cache['r'] = fun(curry_arg, *args, **kwargs)\n            return cache['r']")]),
    dict(expect="silent", desc="ref_count: rename locals", edits=[dict(file=RC, old="should_connect", new="first_subscriber", count=2)]),
    dict(expect="fire", desc="seed C44-r2/2: publish_value builds its subject through a factory call in the operator factory body", names="E1-L0-rx-object", edits=[dict(file="reactivex/operators/_publishvalue.py",
         old="    def publish_value(source: Observable[_T1]) -> ConnectableObservable[_T1]:\n        subject = BehaviorSubject(initial_value)\n        return source.pipe(ops.multicast(subject))\n\n    return publish_value",
         new="    def make() -> BehaviorSubject[_T1]:\n        return BehaviorSubject(initial_value)\n\n    return ops.multicast(make())")]),
    dict(expect="fire", desc="seed C44-r3/1: compose builds a one-shot filter() over its operators in the factory", names="E1-L0-state", edits=[dict(file="reactivex/pipe.py",
         old="    def _compose(source: Any) -> Any:\n        return reduce(lambda obs, op: op(obs), operators, source)", new="    fns = filter(None, operators)\n\n    def _compose(source: Any) -> Any:\n        return reduce(lambda obs, op: op(obs), fns, source)")]),
    dict(expect="silent", desc="compose: operators filtered into a tuple in the factory", edits=[dict(file="reactivex/pipe.py",
         old="    def _compose(source: Any) -> Any:\n        return reduce(lambda obs, op: op(obs), operators, source)", new="    fns = tuple(op for op in operators if op is not None)\n\n    def _compose(source: Any) -> Any:\n        return reduce(lambda obs, op: op(obs), fns, source)")]),
]
