"""Self-test of the checkers: must-fire mutants and must-stay-silent refactors.

Each case edits a scratch copy of /repo/reactivex (text replacement with an
exact occurrence count, so a case that no longer applies is reported, never
silently skipped), byte-compiles the edited file, and runs the property's check
against the copy (RXSA_REPO) with evidence redirected to a temp directory.

usage: python -m sa.selftest.harness [Cxx ...] [-j N] [-v]
"""
from __future__ import annotations

import importlib
import os
import pkgutil
import shutil
import subprocess
import sys
import tempfile
from concurrent.futures import ThreadPoolExecutor

VERIF = os.path.dirname(os.path.dirname(os.path.dirname(os.path.abspath(__file__))))
REPO = os.environ.get("RXSA_REPO", "/repo")


def load_cases(props):
    from . import cases as pkg
    out = []
    for mi in pkgutil.iter_modules(pkg.__path__):
        if props and mi.name not in props:
            continue
        mod = importlib.import_module(f"sa.selftest.cases.{mi.name}")
        for i, c in enumerate(mod.CASES):
            c = dict(c)
            c.setdefault("prop", mi.name)
            c.setdefault("id", f"{mi.name}-{i}")
            out.append(c)
    return out


def apply_edits(root, edits):
    for e in edits:
        path = os.path.join(root, e["file"])
        src = open(path).read()
        n = src.count(e["old"])
        want = e.get("count", 1)
        if want is None:
            want = n if n > 0 else -1
        if n != want:
            return f"edit does not apply: {e['file']}: {n} occurrences of {e['old']!r} (want {want})"
        src = src.replace(e["old"], e["new"])
        open(path, "w").write(src)
    for e in edits:
        path = os.path.join(root, e["file"])
        try:
            compile(open(path).read(), path, "exec")
        except SyntaxError as ex:
            return f"mutant does not compile: {ex}"
    return None


def run_case(c):
    tmp = tempfile.mkdtemp(prefix="rxsa_st_")
    try:
        shutil.copytree(os.path.join(REPO, "reactivex"), os.path.join(tmp, "reactivex"),
                        ignore=shutil.ignore_patterns("__pycache__"))
        err = apply_edits(tmp, c["edits"])
        if err:
            return c, "BROKEN", err
        env = dict(os.environ, RXSA_REPO=tmp, RXSA_EVID_DIR=os.path.join(tmp, "evidence"),
                   PYTHONDONTWRITEBYTECODE="1")
        p = subprocess.run([sys.executable, "-m", "sa.run", c["prop"], "quick"], cwd=VERIF, env=env,
                           capture_output=True, text=True, timeout=300)
        out = p.stdout + p.stderr
        fired = p.returncode == 1 and "VIOLATION property=" in out
        if p.returncode == 2:
            # an analysis error on a mutant is acceptable for 'fire' cases only if declared
            if c["expect"] == "fire" and c.get("allow_error"):
                return c, "ok", "analysis-error (allowed)"
            return c, "FAIL", "ANALYSIS-ERROR: " + out.strip()[-600:]
        if c["expect"] == "fire":
            if not fired:
                return c, "FAIL", "mutant not detected"
            needle = c.get("names")
            if needle and needle not in out:
                return c, "FAIL", f"fired but report does not name {needle!r}: {out.strip()[-600:]}"
            return c, "ok", ""
        else:
            if fired or p.returncode != 0:
                return c, "FAIL", "false alarm on behaviour-preserving edit: " + out.strip()[-800:]
            return c, "ok", ""
    finally:
        shutil.rmtree(tmp, ignore_errors=True)


def main(argv):
    props = [a for a in argv if a.startswith("C")]
    jobs = 16
    if "-j" in argv:
        jobs = int(argv[argv.index("-j") + 1])
    verbose = "-v" in argv
    cases = load_cases(props)
    bad = 0
    with ThreadPoolExecutor(max_workers=jobs) as ex:
        for c, status, msg in ex.map(run_case, cases):
            if status != "ok":
                bad += 1
            if status != "ok" or verbose:
                print(f"{status:6} {c['id']:10} {c['expect']:6} {c.get('desc','')}  {msg}")
    nf = sum(1 for c in cases if c["expect"] == "fire")
    print(f"selftest: {len(cases)} cases ({nf} must-fire, {len(cases)-nf} must-stay-silent), {bad} failed")
    return 1 if bad else 0


if __name__ == "__main__":
    sys.exit(main(sys.argv[1:]))
