#!/bin/sh
# usage: mkagent.sh Cxx  -> creates worktree /tmp/wt_Cxx and prompt /tmp/agent_Cxx.txt
P=$1
git -C /repo worktree add -q --detach /tmp/wt_$P HEAD || exit 1
python3 - "$P" <<'PY'
import json,sys
pid=sys.argv[1]
for l in open('/verif/properties.jsonl'):
    d=json.loads(l)
    if d["id"]==pid:
        text=f'[{d["id"]}] {d["title"]}\n\n{d["statement"]}\n\nQuantified over: {d["quantifier"]["text"]}\n\nWhy the existing tests cannot settle it: {d["why_tests_cant"]}\n\nRelevant files: {", ".join(d["anchors"]["files"])}'
import os
t=open(os.environ.get('AGENT_PROMPT','/tmp/agent_prompt.txt')).read().replace("__WT__",f"/tmp/wt_{pid}").replace("__PROP__",text)
open(f'/tmp/agent_{pid}.txt','w').write(t)
PY
echo ok $P
