"""Writes sa/helpers_ref.json: rel::qual of every function of /repo's current tree (run deliberately, on a tree whose rule instances
were confirmed).  The site walker reads a helper that is NOT in this list at its call site (see sa/ctx.py::_Walker._helper_of)."""
import json
import os
import sys

V = os.path.dirname(os.path.dirname(os.path.abspath(__file__)))
sys.path.insert(0, V)
from sa import frontend  # noqa: E402

repo = frontend.Repo()
from sa.ctx import fn_digest  # noqa: E402
refs = sorted({f.ref for f in repo.all_functions()} | {fn_digest(f.node) for f in repo.all_functions() if not f.is_lambda and hasattr(f.node, "body") and isinstance(f.node.body, list)})
json.dump(refs, open(os.path.join(V, "sa", "helpers_ref.json"), "w"), indent=0)
print(len(refs), "functions")
