"""Generate DESIGN appendix tables from what the checks actually report (evidence/*.json, known_findings.json,
seeded/RESULTS.json).  usage: python3 tools/gen_rules_appendix.py > /tmp/appendix.md"""
import glob, json, os
V = os.path.dirname(os.path.dirname(os.path.abspath(__file__)))
man = json.load(open(os.path.join(V, "MANIFEST.json")))
level = {c["property_id"]: c for c in man["checks"]}
print("### C.1 Rules as built (from the evidence files of the last clean run)\n")
for f in sorted(glob.glob(os.path.join(V, "evidence", "C*.json"))):
    e = json.load(open(f))
    pid = e["property_id"]
    cov = e["coverage"]
    print(f"**{pid}** — {cov['obligations']} obligations, {cov['distinct_nontrivial']} distinct non-trivial constructs\n")
    print("| rule | what it demands | instances | floor |\n|---|---|---|---|")
    for rid, r in cov["rules"].items():
        print(f"| `{rid}` | {r['text']} | {r['instances']} | {r['floor']} |")
    print()
kf = json.load(open(os.path.join(V, "known_findings.json")))["findings"]
print("### C.2 Genuine defects\n")
print("| property | status | commit | what failed | reproducer |\n|---|---|---|---|---|")
for k in kf:
    what = k.get("line", k.get("what", "")).split(" ", 3)[-1] if k["status"] == "fixed" else k.get("what", "")
    print(f"| {k['property']} | {k['status']} | {k.get('commit', '-')} | {what} | {k.get('reproducer', '-')} |")
print()
rp = os.path.join(V, "seeded", "RESULTS.json")
if os.path.exists(rp):
    rows = json.load(open(rp))
    print("### C.3 Seeded changes and the checks that catch them\n")
    print("| seed | aimed at | change | caught by (check:rules) |\n|---|---|---|---|")
    for r in rows:
        print(f"| {r['seed']} | {r['property']} | {r['title']} | {', '.join(r['fired']) or 'MISSED'} |")
