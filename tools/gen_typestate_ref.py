"""Print (or write) the typestate signatures of all operator / source subscribe functions.
usage: PYTHONPATH=/verif python tools/gen_typestate_ref.py [--write]"""
import json, os, sys
sys.path.insert(0, os.path.dirname(os.path.dirname(os.path.abspath(__file__))))
from sa.frontend import Repo
from sa.model import model_of
from sa.engines.typestate import signature
r = Repo(); m = model_of(r)
ref = {}
for f in sorted(m.l2_functions(), key=lambda f: f.ref):
    if not f.module.rel.startswith(("reactivex/operators/", "reactivex/observable/")) or "mixins" in f.module.rel:
        continue
    if f.parent is not None and f.parent.is_class:
        continue
    ref[f.ref] = signature(m, f)
if "--write" in sys.argv:
    p = os.path.join(os.path.dirname(os.path.dirname(os.path.abspath(__file__))), "sa", "props", "typestate_ref.json")
    json.dump(ref, open(p, "w"), indent=1, sort_keys=True)
    print("wrote", p, len(ref))
else:
    for k, v in ref.items():
        print(k.replace("reactivex/", ""))
        for kk, vv in v.items():
            print("    ", kk, " | ".join(f"{a}={b}" for a, b in vv.items()))
