#!/bin/sh
# usage: tools/keepseed.sh <prop> <k> <name>  -- verify a sub-agent seed independently and keep it under seeded/
# (applies the patch to a scratch worktree, runs the suite, runs demo with and without)
set -e
P=$1; K=$2; NAME=$3
SRC=/tmp/wt_$P/seeds/$K
WT=/tmp/verify_${P}_${K}
rm -rf $WT; git -C /repo worktree add -q --detach $WT HEAD
cd $WT
if ! git apply $SRC/patch.diff 2>/dev/null; then echo "PATCH DOES NOT APPLY to current HEAD"; git -C /repo worktree remove --force $WT; exit 1; fi
T=$(/venv/bin/python -m pytest -q -p no:cacheprovider --timeout=900 -x 2>&1 | tail -1)
set +e
PYTHONPATH=$WT timeout 120 /venv/bin/python $SRC/demo.py >/tmp/demo_with.txt 2>&1; W=$?
git checkout -q -- .
PYTHONPATH=$WT timeout 120 /venv/bin/python $SRC/demo.py >/tmp/demo_without.txt 2>&1; WO=$?
set -e
cd /verif
git -C /repo worktree remove --force $WT
echo "tests: $T | demo with=$W without=$WO"
case "$T" in *failed*) echo "TESTS FAIL: not kept"; exit 1;; esac
if [ "$W" != "1" ] || [ "$WO" != "0" ]; then echo "demo does not discriminate: not kept"; exit 1; fi
D=/verif/seeded/$NAME
mkdir -p $D; cp $SRC/patch.diff $SRC/demo.py $D/
python3 - "$SRC/meta.json" "$D/meta.json" "$T" <<'PY'
import json,sys
m=json.load(open(sys.argv[1]))
m["verified_by_me"]={"tests_with_change":sys.argv[3],"demo_exit_with_change":1,"demo_exit_without":0,
  "how":"scratch worktree of /repo HEAD: git apply patch.diff; pytest -x (full suite); demo.py with PYTHONPATH=worktree; git checkout; demo.py again"}
json.dump(m,open(sys.argv[2],"w"),indent=1)
PY
echo kept $D
