"""Generic mutation sweep: a test of the CHECKERS (never a registered check).

Generates syntactic mutants of /repo/reactivex (one per process, on scratch copies outside /repo and /verif), runs all 44
quick rules on each (sa.multi, one process per mutant) and — for the tests phase — the repository's own suite, so that
the mutants that still pass the suite can be split into "some check fires" and "no check fires"; the latter are the
triage list (equivalent mutant / outside every property / a miss to close with a rule).

usage:
  python3 tools/mutation_sweep.py gen   [--files GLOB ...] [--ops OP,...] [--max N] [--seed S]   -> mutation/mutants.json
  python3 tools/mutation_sweep.py checks [-j N]                                                 -> mutation/checks.json
  python3 tools/mutation_sweep.py tests  [-j N] [--only-survivors]                              -> mutation/tests.json
  python3 tools/mutation_sweep.py report                                                        -> mutation/REPORT.md
  python3 tools/mutation_sweep.py show <id>                                                     unified diff of one mutant
"""
from __future__ import annotations

import ast
import copy
import difflib
import fnmatch
import json
import os
import random
import shutil
import subprocess
import sys
import tempfile
from concurrent.futures import ThreadPoolExecutor

V = os.path.dirname(os.path.dirname(os.path.abspath(__file__)))
OUT = os.path.join(V, os.environ.get("RXSA_MUT_DIR", "mutation"))
REPO = os.environ.get("RXSA_REPO", "/repo")
SKIP_FILES = ("reactivex/typing.py", "reactivex/_version.py")

CMP_SWAP = {ast.Lt: ast.LtE, ast.LtE: ast.Lt, ast.Gt: ast.GtE, ast.GtE: ast.Gt, ast.Eq: ast.NotEq, ast.NotEq: ast.Eq,
            ast.Is: ast.IsNot, ast.IsNot: ast.Is}


AOR = {ast.Add: ast.Sub, ast.Sub: ast.Add, ast.Mult: ast.FloorDiv, ast.Mod: ast.FloorDiv, ast.FloorDiv: ast.Mod}


def _is_doc(stmt):
    return isinstance(stmt, ast.Expr) and isinstance(stmt.value, ast.Constant) and isinstance(stmt.value.value, str)


def _bodies(node):
    for f in ("body", "orelse", "finalbody"):
        b = getattr(node, f, None)
        if isinstance(b, list) and b and isinstance(b[0], ast.stmt):
            yield f, b
    for h in getattr(node, "handlers", []) or []:
        yield "handler", h.body


ANTONYMS = [("left", "right"), ("first", "second"), ("start", "stop"), ("span", "shift"), ("count", "skip"), ("min", "max"), ("duetime", "period"),
            ("source", "other"), ("next", "completed"), ("error", "completed"), ("timespan", "timeshift"), ("opening", "closing"), ("key", "value"),
            ("inner", "outer"), ("x", "y"), ("a", "b"), ("old", "new"), ("before", "after"), ("has", "is")]


def _sibling(name, pool):
    import re as _re
    toks = _re.split(r"(_)", name)
    for i, t in enumerate(toks):
        for a, b in ANTONYMS:
            for u_, v_ in ((a, b), (b, a)):
                if t == u_ or (t.startswith(u_) and t[len(u_):].isdigit()):
                    cand = "".join(toks[:i] + [v_ + t[len(u_):]] + toks[i + 1:])
                    if cand in pool and cand != name:
                        return cand
    return None


def candidates(tree):
    """Yield (op, index-in-walk, extra, lineno, description) for every mutation site inside a function body."""
    infunc = set()
    for fn in ast.walk(tree):
        if isinstance(fn, (ast.FunctionDef, ast.AsyncFunctionDef)):
            for st in fn.body:
                for n in ast.walk(st):
                    infunc.add(id(n))
            # parameter defaults / decorators are not in the body: excluded
    pools = {}
    for fn in ast.walk(tree):
        if isinstance(fn, (ast.FunctionDef, ast.AsyncFunctionDef)):
            names = {a.arg for a in fn.args.args + fn.args.kwonlyargs} | {x.id for x in ast.walk(fn) if isinstance(x, ast.Name) and isinstance(x.ctx, ast.Store)}
            for x in ast.walk(fn):
                pools.setdefault(id(x), set()).update(names)
    for i, n in enumerate(ast.walk(tree)):
        if id(n) not in infunc:
            continue
        ln = getattr(n, "lineno", 0)
        if isinstance(n, ast.Name) and isinstance(n.ctx, ast.Load):
            sib = _sibling(n.id, pools.get(id(n), set()))
            if sib:
                yield "VARSWAP", i, sib, ln, f"`{n.id}` -> `{sib}`"
        if isinstance(n, (ast.Expr, ast.Assign, ast.AugAssign)) and not _is_doc(n):
            yield "DEL", i, None, ln, f"delete `{ast.unparse(n)[:70]}`"
        if isinstance(n, ast.Return) and n.value is None:
            yield "DEL", i, None, ln, "delete bare `return`"
        if isinstance(n, (ast.If, ast.While)) and not (isinstance(n.test, ast.Constant)):
            yield "NEG", i, None, ln, f"negate `{ast.unparse(n.test)[:70]}`"
        if isinstance(n, ast.Compare) and len(n.ops) == 1 and type(n.ops[0]) in CMP_SWAP:
            yield "CMP", i, None, ln, f"`{ast.unparse(n)[:60]}`: {type(n.ops[0]).__name__} -> {CMP_SWAP[type(n.ops[0])].__name__}"
            if isinstance(n.ops[0], (ast.Is, ast.IsNot)) and isinstance(n.comparators[0], ast.Constant) and n.comparators[0].value is None:
                yield "TRUTH", i, None, ln, f"`{ast.unparse(n)[:60]}` -> truthiness"
        if isinstance(n, ast.With) and any(ast.unparse(it.context_expr).endswith("lock") for it in n.items):
            yield "UNLOCK", i, None, ln, f"drop `with {ast.unparse(n.items[0].context_expr)}`"
        if isinstance(n, ast.Constant) and type(n.value) is int and n.value in (0, 1):
            yield "CONST", i, None, ln, f"{n.value} -> {1 - n.value}"
        if isinstance(n, ast.Constant) and type(n.value) is bool:
            yield "CONST", i, None, ln, f"{n.value} -> {not n.value}"
        if isinstance(n, ast.BoolOp):
            yield "BOOL", i, None, ln, f"`{ast.unparse(n)[:60]}`: and <-> or"
        if isinstance(n, ast.BinOp) and type(n.op) in AOR:
            yield "AOR", i, None, ln, f"`{ast.unparse(n)[:60]}`: {type(n.op).__name__} -> {AOR[type(n.op)].__name__}"
        if isinstance(n, ast.AugAssign) and type(n.op) in AOR:
            yield "AOR", i, None, ln, f"`{ast.unparse(n)[:60]}`: {type(n.op).__name__} -> {AOR[type(n.op)].__name__}"
        if isinstance(n, ast.UnaryOp) and isinstance(n.op, ast.Not):
            yield "NOTDROP", i, None, ln, f"`{ast.unparse(n)[:60]}`: drop `not`"
        if isinstance(n, ast.Return) and n.value is not None and not (isinstance(n.value, ast.Constant) and n.value.value is None):
            yield "RETNONE", i, None, ln, f"`{ast.unparse(n)[:60]}` -> return None"
        if isinstance(n, ast.Call):
            for k, kw in enumerate(n.keywords):
                if kw.arg == "scheduler":
                    yield "KWDROP", i, k, ln, f"drop scheduler= in `{ast.unparse(n.func)[:40]}(...)`"
            simple = (ast.Name, ast.Attribute, ast.Constant, ast.Subscript)
            if len(n.args) >= 2 and isinstance(n.args[0], simple) and isinstance(n.args[1], simple) and ast.unparse(n.args[0]) != ast.unparse(n.args[1]):
                yield "ARGSWAP", i, None, ln, f"swap the first two arguments of `{ast.unparse(n)[:60]}`"
        for fname, body in _bodies(n):
            for k in range(len(body) - 1):
                a, b = body[k], body[k + 1]
                simple = (ast.Expr, ast.Assign, ast.AugAssign)
                if isinstance(a, simple) and isinstance(b, simple) and not _is_doc(a):
                    yield "SWAP", i, (fname, k), a.lineno, f"swap `{ast.unparse(a)[:40]}` / `{ast.unparse(b)[:40]}`"


def apply(src, op, idx, extra):
    tree = ast.parse(src)
    nodes = list(ast.walk(tree))
    n = nodes[idx]
    parents = {}
    for p in nodes:
        for c in ast.iter_child_nodes(p):
            parents[id(c)] = p

    def replace_stmt(old, new_list):
        p = parents[id(old)]
        for f, body in list(_bodies(p)):
            if old in body:
                k = body.index(old)
                body[k:k + 1] = new_list
                return
        raise RuntimeError("statement not found")
    if op == "DEL":
        replace_stmt(n, [ast.Pass()])
    elif op == "NEG":
        n.test = ast.UnaryOp(op=ast.Not(), operand=n.test)
    elif op == "CMP":
        n.ops = [CMP_SWAP[type(n.ops[0])]()]
    elif op == "TRUTH":
        new = n.left if isinstance(n.ops[0], ast.IsNot) else ast.UnaryOp(op=ast.Not(), operand=n.left)
        p = parents[id(n)]
        for f, v in ast.iter_fields(p):
            if v is n:
                setattr(p, f, new)
            elif isinstance(v, list) and n in v:
                v[v.index(n)] = new
    elif op == "UNLOCK":
        replace_stmt(n, n.body)
    elif op == "CONST":
        n.value = (not n.value) if type(n.value) is bool else 1 - n.value
    elif op == "BOOL":
        n.op = ast.Or() if isinstance(n.op, ast.And) else ast.And()
    elif op == "KWDROP":
        del n.keywords[extra]
    elif op == "AOR":
        n.op = AOR[type(n.op)]()
    elif op == "NOTDROP":
        p = parents[id(n)]
        for f, v in ast.iter_fields(p):
            if v is n:
                setattr(p, f, n.operand)
            elif isinstance(v, list) and n in v:
                v[v.index(n)] = n.operand
    elif op == "RETNONE":
        n.value = ast.Constant(value=None)
    elif op == "VARSWAP":
        n.id = extra
    elif op == "ARGSWAP":
        n.args[0], n.args[1] = n.args[1], n.args[0]
    elif op == "SWAP":
        fname, k = extra
        body = dict(_bodies(n))[fname] if fname != "handler" else None
        if body is None:
            raise RuntimeError("handler swap unsupported")
        body[k], body[k + 1] = body[k + 1], body[k]
    ast.fix_missing_locations(tree)
    return ast.unparse(tree) + "\n"


def cmd_gen(args):
    globs, ops, mx, seed = ["reactivex/**"], None, None, 1
    it = iter(args)
    for a in it:
        if a == "--files":
            globs = []
            for b in it:
                if b.startswith("--"):
                    a = b
                    break
                globs.append(b)
            else:
                a = None
        if a == "--ops":
            ops = next(it).split(",")
        if a == "--max":
            mx = int(next(it))
        if a == "--seed":
            seed = int(next(it))
    muts = []
    for dp, dn, fn in os.walk(os.path.join(REPO, "reactivex")):
        dn[:] = [d for d in dn if d != "__pycache__"]
        for f in sorted(fn):
            if not f.endswith(".py"):
                continue
            rel = os.path.relpath(os.path.join(dp, f), REPO)
            if rel in SKIP_FILES or not any(fnmatch.fnmatch(rel, g) for g in globs):
                continue
            src = open(os.path.join(REPO, rel)).read()
            try:
                tree = ast.parse(src)
            except SyntaxError:
                continue
            seen = set()
            for op, idx, extra, ln, desc in candidates(tree):
                if ops and op not in ops:
                    continue
                if op == "SWAP" and extra[0] == "handler":
                    continue
                key = (op, idx, json.dumps(extra))
                if key in seen:
                    continue
                seen.add(key)
                muts.append({"file": rel, "op": op, "idx": idx, "extra": extra, "line": ln, "desc": desc})
    muts.sort(key=lambda m: (m["file"], m["line"], m["op"], m["idx"]))
    if mx and len(muts) > mx:
        random.Random(seed).shuffle(muts)
        muts = sorted(muts[:mx], key=lambda m: (m["file"], m["line"], m["op"], m["idx"]))
    for k, m in enumerate(muts):
        m["id"] = k
    os.makedirs(OUT, exist_ok=True)
    json.dump({"head": subprocess.run(["git", "-C", REPO, "rev-parse", "HEAD"], capture_output=True, text=True).stdout.strip(),
               "mutants": muts}, open(os.path.join(OUT, "mutants.json"), "w"), indent=0)
    from collections import Counter
    print(len(muts), "mutants", dict(Counter(m["op"] for m in muts)))


def _load():
    return json.load(open(os.path.join(OUT, "mutants.json")))["mutants"]


def cmd_regen_files(args):
    """Mutants are keyed (file, operator, k-th candidate): when a file changes (a fix commit) its keys point at other statements.
    Re-enumerate the candidates of the given files with the operators already present in this sweep; the new mutants get fresh
    ids, the old ones (and their verdicts / suite results / triage) are dropped.  Then: checks --missing; tests; report."""
    files = [a for a in args if a.endswith(".py")]
    meta = json.load(open(os.path.join(OUT, "mutants.json")))
    muts = meta["mutants"]
    ops = sorted({m["op"] for m in muts})
    old = [m for m in muts if m["file"] in files]
    keep = [m for m in muts if m["file"] not in files]
    nxt = max(m["id"] for m in muts) + 1
    new = []
    for rel in files:
        tree = ast.parse(open(os.path.join(REPO, rel)).read())
        seen = set()
        for op, idx, extra, ln, desc in candidates(tree):
            if op not in ops or (op == "SWAP" and extra[0] == "handler"):
                continue
            key = (op, idx, json.dumps(extra))
            if key in seen:
                continue
            seen.add(key)
            new.append({"file": rel, "op": op, "idx": idx, "extra": extra, "line": ln, "desc": desc})
    new.sort(key=lambda m: (m["file"], m["line"], m["op"], m["idx"]))
    for m in new:
        m["id"] = nxt
        nxt += 1
    meta["mutants"] = keep + new
    meta.setdefault("regenerated", []).append({"files": files, "head": subprocess.run(["git", "-C", REPO, "rev-parse", "HEAD"], capture_output=True, text=True).stdout.strip(),
                                               "dropped": len(old), "added": len(new)})
    json.dump(meta, open(os.path.join(OUT, "mutants.json"), "w"), indent=0)
    gone = {str(m["id"]) for m in old}
    for nm in ("checks.json", "tests.json", "triage.json"):
        pth = os.path.join(OUT, nm)
        if os.path.exists(pth):
            d = json.load(open(pth))
            d = {k: v for k, v in d.items() if k not in gone}
            json.dump(d, open(pth, "w"), indent=0)
    print("dropped", len(old), "added", len(new))


def _mutated(m):
    src = open(os.path.join(REPO, m["file"])).read()
    return src, apply(src, m["op"], m["idx"], tuple(m["extra"]) if isinstance(m["extra"], list) else m["extra"])


def _tree_stamp():
    mx, n = 0.0, 0
    for dp, dn, fn in os.walk(os.path.join(REPO, "reactivex")):
        dn[:] = [d for d in dn if d != "__pycache__"]
        for f in fn:
            if f.endswith(".py"):
                mx = max(mx, os.stat(os.path.join(dp, f)).st_mtime)
                n += 1
    return (mx, n)


class _Pool:
    """One persistent scratch copy per worker thread."""

    def __init__(self, what):
        self.what = what
        self.dirs = []
        import threading
        self.local = threading.local()

    def dir(self):
        d = getattr(self.local, "d", None)
        if d is None:
            d = tempfile.mkdtemp(prefix="rxsa_mut_")
            if self.what == "pkg":
                shutil.copytree(os.path.join(REPO, "reactivex"), os.path.join(d, "reactivex"), ignore=shutil.ignore_patterns("__pycache__"))
            else:
                for name in os.listdir(REPO):
                    if name in (".git", ".pytest_cache", "docs", "examples", "notebooks"):
                        continue
                    s = os.path.join(REPO, name)
                    (shutil.copytree if os.path.isdir(s) else shutil.copy)(s, os.path.join(d, name), **({"ignore": shutil.ignore_patterns("__pycache__")} if os.path.isdir(s) else {}))
            self.local.d = d
            self.dirs.append(d)
        return d

    def fresh(self, rel, src):
        """The worker's scratch copy, re-made if /repo changed under it (a fix commit during a long sweep would otherwise leave the
        copy on the old source while the rules already expect the new one)."""
        d = self.dir()
        stamp = _tree_stamp()
        same = getattr(self.local, "stamp", None) == stamp
        if not same and getattr(self.local, "stamp", None) is None:
            self.local.stamp = stamp
            same = True
        if not same:
            self.local.stamp = stamp
            shutil.rmtree(d, ignore_errors=True)
            self.dirs.remove(d)
            self.local.d = None
            d = self.dir()
        return d

    def close(self):
        for d in self.dirs:
            shutil.rmtree(d, ignore_errors=True)


def cmd_checks(args):
    j = int(args[args.index("-j") + 1]) if "-j" in args else 12
    muts = _load()
    prev = {}
    if "--redo-suspect" in args:
        # re-run the mutants on which only the given check:rule pairs fired (used when a scratch copy went stale under a rule change)
        pats = tuple(args[args.index("--redo-suspect") + 1].split(","))
        prev = json.load(open(os.path.join(OUT, "checks.json")))
        muts = [m for m in muts if prev.get(str(m["id"]), {}).get("status") == "ok" and prev[str(m["id"])]["fired"]
                and all(f.startswith(pats) for f in prev[str(m["id"])]["fired"])]
        print("re-running", len(muts), "mutants", flush=True)
    elif "--redo-errors" in args or "--redo-silent" in args:
        # re-run only the mutants whose earlier run ended in an analysis error (or, --redo-silent, on which nothing fired):
        # used after the checkers changed
        prev = json.load(open(os.path.join(OUT, "checks.json")))
        want = lambda r: r.get("status") == "ok" and ((r["errors"] and "--redo-errors" in args) or (not r["fired"] and "--redo-silent" in args))
        muts = [m for m in muts if want(prev.get(str(m["id"]), {}))]
        print("re-running", len(muts), "mutants", flush=True)
    elif "--missing" in args:
        prev = json.load(open(os.path.join(OUT, "checks.json")))
        muts = [m for m in muts if str(m["id"]) not in prev]
        print("running", len(muts), "mutants without a verdict", flush=True)
    pool = _Pool("pkg")

    def one(m):
        try:
            src, new = _mutated(m)
            compile(new, m["file"], "exec")
        except Exception as e:  # noqa: BLE001
            return m["id"], {"status": "invalid", "why": f"{type(e).__name__}: {e}"[:100]}
        if ast.dump(ast.parse(src)) == ast.dump(ast.parse(new)):
            return m["id"], {"status": "invalid", "why": "no-op"}
        d = pool.fresh(m["file"], src)
        path = os.path.join(d, m["file"])
        try:
            open(path, "w").write(new)
            p = subprocess.run([sys.executable, "-m", "sa.multi"], cwd=V, env=dict(os.environ, RXSA_REPO=d), capture_output=True, text=True, timeout=600)
        finally:
            open(path, "w").write(src)
        fired = [f"{l.split()[0]}:{l.split()[2] if len(l.split()) > 2 else ''}" for l in p.stdout.splitlines() if " rc=1" in l]
        errs = [l.split()[0] + ":" + " ".join(l.split()[2:])[:80] for l in p.stdout.splitlines() if " rc=2" in l]
        return m["id"], {"status": "ok", "fired": fired, "errors": errs}
    res = dict(prev)
    try:
        with ThreadPoolExecutor(j) as ex:
            for k, (i, r) in enumerate(ex.map(one, muts)):
                res[str(i)] = r
                if k % 200 == 0:
                    print(k, "/", len(muts), flush=True)
    finally:
        pool.close()
    json.dump(res, open(os.path.join(OUT, "checks.json"), "w"), indent=0)
    ok = [r for r in res.values() if r["status"] == "ok"]
    print(len(ok), "valid;", sum(1 for r in ok if r["fired"]), "fired;", sum(1 for r in ok if r["errors"] and not r["fired"]), "analysis-error only")


def cmd_tests(args):
    j = int(args[args.index("-j") + 1]) if "-j" in args else 10
    muts = _load()
    checks = json.load(open(os.path.join(OUT, "checks.json")))
    todo = [m for m in muts if checks.get(str(m["id"]), {}).get("status") == "ok"]
    if "--only-survivors" in args:
        todo = [m for m in todo if not checks[str(m["id"])]["fired"]]
    prev = {}
    pth = os.path.join(OUT, "tests.json")
    if os.path.exists(pth):
        prev = json.load(open(pth))
    todo = [m for m in todo if str(m["id"]) not in prev]
    pool = _Pool("repo")

    def one(m):
        src, new = _mutated(m)
        d = pool.fresh(m["file"], src)
        path = os.path.join(d, m["file"])
        try:
            open(path, "w").write(new)
            try:
                p = subprocess.run(["/venv/bin/python", "-m", "pytest", "-q", "-x", "-p", "no:cacheprovider", "--timeout=60", "tests"], cwd=d,
                                   capture_output=True, text=True, timeout=420, env=dict(os.environ, PYTHONDONTWRITEBYTECODE="1"))
                last = (p.stdout.strip().splitlines() or ["?"])[-1]
                st = "pass" if p.returncode == 0 else "fail"
            except subprocess.TimeoutExpired:
                last, st = "timeout", "fail"
        finally:
            open(path, "w").write(src)
        return m["id"], {"tests": st, "last": last[:120]}
    res = dict(prev)
    try:
        with ThreadPoolExecutor(j) as ex:
            for k, (i, r) in enumerate(ex.map(one, todo)):
                res[str(i)] = r
                if k % 50 == 0:
                    print(k, "/", len(todo), flush=True)
                    json.dump(res, open(pth, "w"), indent=0)
    finally:
        pool.close()
        json.dump(res, open(pth, "w"), indent=0)
    print(sum(1 for r in res.values() if r["tests"] == "pass"), "of", len(res), "pass the suite")


EFFECT_ATTRS = {"on_next", "on_error", "on_completed", "subscribe", "schedule", "schedule_relative", "schedule_absolute", "schedule_periodic",
                "dispose", "connect", "append", "add", "remove", "pop", "clear", "enqueue", "dequeue", "invoke", "acquire", "release", "notify", "wait",
                "set_result", "set_exception", "cancel", "start", "join", "put", "get", "send", "throw", "close"}


def auto_triage(m, src_cache={}):
    """Mechanical triage of mutants that are equivalent by construction.  Returns a label or None (needs a human)."""
    src = src_cache.get(m["file"])
    if src is None:
        src = src_cache[m["file"]] = open(os.path.join(REPO, m["file"])).read()
    nodes = list(ast.walk(ast.parse(src)))
    if m["idx"] >= len(nodes):
        return None
    n = nodes[m["idx"]]
    if m["op"] == "DEL" and isinstance(n, ast.Expr) and isinstance(n.value, ast.Constant) and n.value.value is Ellipsis:
        return "equivalent: `...` body of an overload / protocol stub"
    if m["op"] == "DEL" and isinstance(n, ast.Expr) and ast.unparse(n) == "super().__init__()":
        return "equivalent: base __init__ has no state (abc base / object)"
    if m["op"] == "SWAP":
        fname, k = m["extra"]
        body = dict(_bodies(n)).get(fname)
        if body is None or k + 1 >= len(body):
            return None
        a, b = body[k], body[k + 1]

        def info(st):
            stores = {x.id for x in ast.walk(st) if isinstance(x, ast.Name) and isinstance(x.ctx, ast.Store)}
            stores |= {ast.unparse(x) for x in ast.walk(st) if isinstance(x, (ast.Attribute, ast.Subscript)) and isinstance(x.ctx, ast.Store)}
            loads = {x.id for x in ast.walk(st) if isinstance(x, ast.Name) and isinstance(x.ctx, ast.Load)}
            eff = any(isinstance(x, ast.Call) and isinstance(x.func, ast.Attribute) and x.func.attr in EFFECT_ATTRS for x in ast.walk(st)) \
                or any(isinstance(x, ast.Call) and isinstance(x.func, ast.Name) and x.func.id in ("next", "print", "setattr") for x in ast.walk(st))
            plain_calls = [x for x in ast.walk(st) if isinstance(x, ast.Call)]
            return stores, loads, eff, plain_calls
        sa_, la, ea, ca = info(a)
        sb_, lb, eb, cb = info(b)
        base = lambda names: {s_.split("[")[0].split(".")[0] for s_ in names}
        if not ea and not eb and not (base(sa_) & (lb | base(sb_))) and not (base(sb_) & la) and isinstance(a, ast.Assign) and isinstance(b, ast.Assign):
            # user callbacks may run in either RHS only if at most one of them calls anything non-constructor
            risky = lambda calls: [c for c in calls if not (isinstance(c.func, ast.Name) and (c.func.id[:1].isupper() or c.func.id in ("iter", "len", "list", "dict", "set", "tuple", "max", "min", "cast", "RLock", "Lock")))
                                   and not (isinstance(c.func, ast.Attribute) and c.func.attr in ("singleton", "to_seconds", "to_timedelta", "to_datetime", "copy"))]
            if not (risky(ca) and risky(cb)):
                return "equivalent: two independent assignments (no shared names, no effects) swapped"
    return None


def cmd_report(args):
    muts = {str(m["id"]): m for m in _load()}
    checks = json.load(open(os.path.join(OUT, "checks.json")))
    tests = json.load(open(os.path.join(OUT, "tests.json"))) if os.path.exists(os.path.join(OUT, "tests.json")) else {}
    tri = json.load(open(os.path.join(OUT, "triage.json"))) if os.path.exists(os.path.join(OUT, "triage.json")) else {}
    rows = []
    for i, m in muts.items():
        c = checks.get(i, {})
        if c.get("status") != "ok":
            continue
        rows.append((m, c, tests.get(i, {}).get("tests")))
    n = len(rows)
    fired = [r for r in rows if r[1]["fired"]]
    tp = [r for r in rows if r[2] == "pass"]
    tp_f = [r for r in tp if r[1]["fired"]]
    with open(os.path.join(OUT, "REPORT.md"), "w") as fh:
        fh.write(f"# Mutation sweep of the checkers\n\n{n} valid mutants; some check fires on {len(fired)}; "
                 f"{len(tp)} pass the repository's suite, of which some check fires on {len(tp_f)} and none on {len(tp) - len(tp_f)}.\n\n")
        from collections import Counter
        byop = Counter()
        byop_f = Counter()
        for m, c, t in tp:
            byop[m["op"]] += 1
            byop_f[m["op"]] += bool(c["fired"])
        fh.write("| operator | suite-passing mutants | some check fires |\n|---|---|---|\n")
        for op in sorted(byop):
            fh.write(f"| {op} | {byop[op]} | {byop_f[op]} |\n")
        fh.write("\n## Suite-passing mutants on which no check fires (triage)\n\n| id | file:line | mutation | triage |\n|---|---|---|---|\n")
        n_auto = 0
        cats = Counter()
        lines = []
        for m, c, t in tp:
            if not c["fired"]:
                lab = tri.get(str(m['id'])) or auto_triage(m) or ("analysis error (exit 2): " + "; ".join(c["errors"])[:90] if c["errors"] else "")
                if lab.startswith("now detected"):
                    lab = "stale label: " + lab
                n_auto += bool(lab)
                cat = next((k for k in ("equivalent", "outside", "miss", "not decided", "analysis error") if lab.startswith(k)), "untriaged" if not lab else "other")
                cats[cat] += 1
                lines.append(f"| {m['id']} | {m['file']}:{m['line']} | {m['op']} {m['desc'].replace('|', '/')} | {lab} |\n")
        fh.writelines(lines)
        fh.write(f"\n{n_auto} of these carry a triage label.\n\n## Triage summary of the silent suite-passing mutants\n\n| category | count | meaning |\n|---|---|---|\n")
        meaning = {"equivalent": "no observable difference for any subscriber (independent statements swapped, flags re-assigned before use, ids compared only for equality, memory-only clean-up, double guards)",
                   "outside": "a real change of behaviour that none of the 44 properties states (return values, logging, validation of invalid arguments, operators / back-ends no property names)",
                   "miss": "breaks a property and is not reported: needs an analysis this framework does not have (definite assignment / None-flow, attributes) or a rule not written",
                   "not decided": "value-level behaviour inside a clause that is deliberately decided structurally only (see the level texts in MANIFEST)",
                   "analysis error": "the check exits 2 (anchor vanished) instead of reporting a violation", "untriaged": "", "other": ""}
        for k, v in cats.most_common():
            fh.write(f"| {k} | {v} | {meaning.get(k, '')} |\n")
    print(f"{n} valid; fired on {len(fired)}; suite-passing {len(tp)}: fired {len(tp_f)}, silent {len(tp) - len(tp_f)}")


def cmd_show(args):
    m = {x["id"]: x for x in _load()}[int(args[0])]
    src, new = _mutated(m)
    ref = ast.unparse(ast.parse(src)) + "\n"
    print(m)
    sys.stdout.writelines(difflib.unified_diff(ref.splitlines(True), new.splitlines(True), m["file"], m["file"] + " (mutant)", n=4))


if __name__ == "__main__":
    cmd = sys.argv[1] if len(sys.argv) > 1 else "report"
    {"gen": cmd_gen, "regen-files": cmd_regen_files, "checks": cmd_checks, "tests": cmd_tests, "report": cmd_report, "show": cmd_show}[cmd](sys.argv[2:])
