"""Runs all 44 checks (sa.multi, scratch copies) on each behaviour-preserving refactoring kept under refactors/ and rewrites
refactors/RESULTS.md.  Expected outcome for every row: silent.  A test of the checkers, not a check."""
import json
import os
import re
import subprocess
import sys

V = os.path.dirname(os.path.dirname(os.path.abspath(__file__)))
names = sorted(d for d in os.listdir(os.path.join(V, "refactors")) if os.path.isfile(os.path.join(V, "refactors", d, "patch.diff")))
out = subprocess.run([sys.executable, os.path.join(V, "tools", "seedcheck2.py")] + [os.path.join(V, "refactors", n, "patch.diff") for n in names],
                     capture_output=True, text=True, cwd=V).stdout
rows = [l.strip() for l in out.splitlines() if l.startswith("== ")]
n = {"silent": 0, "violation": 0, "exit2": 0}
lines = []
for r in rows:
    path, res = r[3:].split(": ", 1)
    name = path.split("/")[-2]
    t = json.load(open(os.path.join(V, "refactors", name, "meta.json"))).get("title", "")
    if "NO CHECK FIRES" in res:
        k, o = "silent", "silent"
    elif "rc=1" in res:
        k, o = "violation", "FALSE VIOLATION: " + res
    else:
        k, o = "exit2", "exit 2 (fail closed): " + res
    n[k] += 1
    lines.append(f"| {name} | {t.replace('|', '/')[:110]} | {o.replace('|', '/')[:200]} |")
head = ["# Behaviour-preserving refactorings by independent sub-agents (false-alarm hunt)", "",
        "80 refactorings (prompt `tools/agents/agent_prompt_v5.txt`: 16 properties x 5; each keeps the suite green and comes with the agent's "
        "equivalence argument in `meta.json`). Every check is run on each (`python3 tools/refactor_matrix.py`). Expected outcome: silent.", "",
        f"Result on the current checkers: **{n['silent']} silent, {n['exit2']} exit 2 (anchor / idiom not found: no verdict), {n['violation']} false "
        f"violations** (first run, before any repair: 53 / 10 / 17).", "", "| refactoring | title | outcome |", "|---|---|---|"]
open(os.path.join(V, "refactors", "RESULTS.md"), "w").write("\n".join(head + lines) + "\n")
print(n)
