"""Behaviour-preserving whole-tree transformations; every registered check must stay silent on each.
usage: python3 tools/refactor_sweep.py [unparse|flipcmp|invertif|rename|all]"""
import ast, os, shutil, subprocess, sys, tempfile, json
V = os.path.dirname(os.path.dirname(os.path.abspath(__file__)))
FLIP = {ast.Lt: ast.Gt, ast.Gt: ast.Lt, ast.LtE: ast.GtE, ast.GtE: ast.LtE}


class FlipCmp(ast.NodeTransformer):
    def visit_Compare(self, n):
        self.generic_visit(n)
        if len(n.ops) == 1 and type(n.ops[0]) in FLIP and not isinstance(n.left, ast.Constant) or \
                (len(n.ops) == 1 and type(n.ops[0]) in FLIP):
            return ast.Compare(left=n.comparators[0], ops=[FLIP[type(n.ops[0])]()], comparators=[n.left])
        return n


class InvertIf(ast.NodeTransformer):
    def visit_If(self, n):
        self.generic_visit(n)
        if n.orelse and not (len(n.orelse) == 1 and isinstance(n.orelse[0], ast.If)):
            return ast.If(test=ast.UnaryOp(op=ast.Not(), operand=n.test), body=n.orelse, orelse=n.body)
        return n


class ExtractCond(ast.NodeTransformer):
    """`if <compound test>: ...` -> `cond_k = <test>; if cond_k: ...` for if-statements directly in function bodies
    (not elif chains, not loops): naming a decision is the most common behaviour-preserving edit."""
    def __init__(self):
        self.k = 0

    def _block(self, body):
        out = []
        for st in body:
            if isinstance(st, ast.If) and isinstance(st.test, (ast.BoolOp, ast.Compare)) and not any(isinstance(x, (ast.NamedExpr, ast.Await, ast.Yield)) for x in ast.walk(st.test)):
                self.k += 1
                nm = f"cond_{self.k}"
                out.append(ast.Assign(targets=[ast.Name(id=nm, ctx=ast.Store())], value=st.test))
                st.test = ast.Name(id=nm, ctx=ast.Load())
            out.append(st)
        return out

    def visit_FunctionDef(self, f):
        self.generic_visit(f)
        f.body = self._block(f.body)
        return f

    def visit_With(self, w):
        self.generic_visit(w)
        w.body = self._block(w.body)
        return w

    def visit_Try(self, t):
        self.generic_visit(t)
        t.body = self._block(t.body)
        return t


class EarlyReturn(ast.NodeTransformer):
    """`if c: A else: B` as the last statement of a function -> `if c: A; return` followed by B (guard-clause style)."""
    def visit_FunctionDef(self, f):
        self.generic_visit(f)
        if any(isinstance(n, (ast.Yield, ast.YieldFrom)) for n in ast.walk(f)):
            return f
        last = f.body[-1] if f.body else None
        if isinstance(last, ast.If) and last.orelse and not (len(last.orelse) == 1 and isinstance(last.orelse[0], ast.If)):
            body = list(last.body)
            if not isinstance(body[-1], (ast.Return, ast.Raise)):
                body.append(ast.Return(value=None))
            f.body = f.body[:-1] + [ast.If(test=last.test, body=body, orelse=[])] + list(last.orelse)
        return f


class RenameLocals(ast.NodeTransformer):
    """Rename function-local variables that are plain assignment targets (not params, not nonlocal/global, not
    captured by nested functions) by appending a suffix."""
    def visit_FunctionDef(self, f):
        self.generic_visit(f)
        nested = [n for n in ast.walk(f) if isinstance(n, (ast.FunctionDef, ast.Lambda, ast.ClassDef)) and n is not f]
        nested_names = {x.id for n in nested for x in ast.walk(n) if isinstance(x, ast.Name)}
        declared = {nm for n in ast.walk(f) if isinstance(n, (ast.Nonlocal, ast.Global)) for nm in n.names}
        params = {a.arg for a in f.args.posonlyargs + f.args.args + f.args.kwonlyargs} | \
                 ({f.args.vararg.arg} if f.args.vararg else set()) | ({f.args.kwarg.arg} if f.args.kwarg else set())
        own_nodes = []
        def collect(n):
            for ch in ast.iter_child_nodes(n):
                if isinstance(ch, (ast.FunctionDef, ast.Lambda, ast.ClassDef)):
                    continue
                own_nodes.append(ch); collect(ch)
        collect(f)
        stores = {n.id for n in own_nodes if isinstance(n, ast.Name) and isinstance(n.ctx, ast.Store)}
        cand = {s for s in stores if s not in nested_names and s not in declared and s not in params and not s.startswith("__")}
        for n in own_nodes:
            if isinstance(n, ast.Name) and n.id in cand:
                n.id = n.id + "_rn"
        return f


def rename_closure_vars(path, opaque=False):
    """Scope-aware renaming of every function-local variable (including those captured / rebound through
    `nonlocal` by nested functions) using the analyser's own scope resolution."""
    sys.path.insert(0, V)
    from sa.frontend import Module
    src = open(path).read()
    m = Module(path, os.path.basename(path), "m", src)
    counter = 0
    for S in m.root.walk():
        if not S.is_func:
            continue
        for name, binds in list(S.binds.items()):
            counter += 1
            kinds = {k for k, _ in binds}
            if kinds & {"param", "def", "class", "import", "except", "with"} or name.startswith("__") or name in S.globals_ or name in S.nonlocals:
                continue
            new = f"zq{counter}" if opaque else name + "_cv"
            users = [S] + [g for g in S.descendants() if (g.is_func or g.is_class)]
            for g in users:
                if g is not S and (g.is_class or g.owner(name) is not S):
                    continue
                for n in g.direct_nodes():
                    if isinstance(n, ast.Name) and n.id == name:
                        n.id = new
                    elif isinstance(n, ast.Nonlocal) and name in n.names:
                        n.names = [new if x == name else x for x in n.names]
                    elif isinstance(n, ast.arg):
                        pass
            # a class statement's header (bases, keywords, decorators) is evaluated in the enclosing function's scope
            for c in ast.walk(S.node):
                if isinstance(c, ast.ClassDef):
                    par = m.parents.get(c)
                    while par is not None and not isinstance(par, (ast.FunctionDef, ast.AsyncFunctionDef, ast.Lambda, ast.ClassDef)):
                        par = m.parents.get(par)
                    if par is S.node:
                        for hdr in c.bases + [k.value for k in c.keywords] + c.decorator_list:
                            for n in ast.walk(hdr):
                                if isinstance(n, ast.Name) and n.id == name:
                                    n.id = new
            # keyword arguments / attribute names are untouched (they are not Names)
    return ast.unparse(m.tree)


def cellify(path):
    """`nonlocal x` closure state -> one-element list cell (`x = [v]`, `x[0]` everywhere): the repo uses both spellings."""
    sys.path.insert(0, V)
    from sa.frontend import Module
    src = open(path).read()
    m = Module(path, os.path.basename(path), "m", src)
    todo = []
    for S in m.root.walk():
        if not S.is_func:
            continue
        for name, binds in list(S.binds.items()):
            kinds = {k for k, _ in binds}
            if kinds - {"assign", "annassign", "augassign"} or name in S.globals_ or name in S.nonlocals or name in S.params:
                continue
            users = [g for g in S.descendants() if g.is_func and g.owner(name) is S]
            if not any(name in g.nonlocals for g in users):
                continue
            # only simple statements: `name = v` / `name: T = v` / `name += v` targets, plain loads
            ok = True
            for g in [S] + users:
                for n in g.direct_nodes():
                    if isinstance(n, (ast.Tuple, ast.List)) and isinstance(getattr(n, "ctx", None), ast.Store) and any(isinstance(e, ast.Name) and e.id == name for e in n.elts):
                        ok = False
                    if isinstance(n, (ast.For, ast.comprehension)) and any(isinstance(x, ast.Name) and x.id == name for x in ast.walk(n.target)):
                        ok = False
                    if isinstance(n, (ast.With,)) and any(i.optional_vars is not None and any(isinstance(x, ast.Name) and x.id == name for x in ast.walk(i.optional_vars)) for i in n.items):
                        ok = False
                    if isinstance(n, ast.ExceptHandler) and n.name == name:
                        ok = False
                    if isinstance(n, ast.AnnAssign) and isinstance(n.target, ast.Name) and n.target.id == name and n.value is None:
                        ok = False
                    if isinstance(n, ast.Delete):
                        ok = False
            if ok:
                todo.append((S, name, users))
    for S, name, users in todo:
        inits = set()
        pre = None
        for n in S.direct_nodes():
            if isinstance(n, (ast.Assign, ast.AnnAssign)) and pre is None:
                tg0 = n.targets[0] if isinstance(n, ast.Assign) else n.target
                if isinstance(tg0, ast.Name) and tg0.id == name and n.value is not None:
                    pre = n
        if pre is None or pre not in S.node.body:
            continue        # the allocation must dominate every use: only a top-level statement of the owner qualifies
        for g in [S] + users:
            for n in list(g.direct_nodes()):
                if isinstance(n, ast.Name) and n.id == name:
                    n._cell = True
                if isinstance(n, ast.Nonlocal) and name in n.names:
                    n.names = [x for x in n.names if x != name]

        class T(ast.NodeTransformer):
            def __init__(self, scope_nodes):
                self.ids = {id(x) for x in scope_nodes}

            def visit_Name(self, n):
                if getattr(n, "_cell", False):
                    del n._cell
                    return ast.Subscript(value=ast.Name(id=name, ctx=ast.Load()), slice=ast.Constant(0), ctx=n.ctx)
                return n
        # the first plain assignment in S becomes the allocation of the cell
        first = None
        for n in S.direct_nodes():
            if isinstance(n, (ast.Assign, ast.AnnAssign)) and first is None:
                tg = n.targets[0] if isinstance(n, ast.Assign) else n.target
                if isinstance(tg, ast.Name) and tg.id == name and n.value is not None:
                    first = n
        if first is not None and first not in S.node.body:
            first = None        # the allocation must dominate every use: only a top-level statement of the owner qualifies
        if first is None:
            for g in [S] + users:
                for n in g.direct_nodes():
                    if hasattr(n, "_cell"):
                        del n._cell
            continue
        tgt = first.targets[0] if isinstance(first, ast.Assign) else first.target
        del tgt._cell
        T([]).visit(S.node)
        first.value = ast.List(elts=[first.value], ctx=ast.Load())
        if isinstance(first, ast.AnnAssign):
            first.annotation = ast.Name(id="list", ctx=ast.Load())
    # drop emptied nonlocal statements
    class Clean(ast.NodeTransformer):
        def visit_Nonlocal(self, n):
            return n if n.names else ast.Pass()
    Clean().visit(m.tree)
    ast.fix_missing_locations(m.tree)
    return ast.unparse(m.tree)


def private_data_attrs(root):
    """names `_x` stored through `self._x = ...` somewhere and defined as a function / class / class-level name nowhere"""
    stored, defined = set(), set()
    for dp, _, fns in os.walk(os.path.join(root, "reactivex")):
        for fn in fns:
            if fn.endswith(".py"):
                t = ast.parse(open(os.path.join(dp, fn)).read())
                for n in ast.walk(t):
                    if isinstance(n, ast.Attribute) and isinstance(n.ctx, ast.Store) and n.attr.startswith("_") and not n.attr.startswith("__"):
                        stored.add(n.attr)
                    if isinstance(n, (ast.FunctionDef, ast.AsyncFunctionDef, ast.ClassDef)):
                        defined.add(n.name)
                    if isinstance(n, ast.ClassDef):
                        for b in n.body:
                            for x in ast.walk(b) if isinstance(b, (ast.Assign, ast.AnnAssign)) else ():
                                if isinstance(x, ast.Name):
                                    defined.add(x.id)
                    if isinstance(n, ast.Constant) and isinstance(n.value, str):
                        defined.add(n.value)      # getattr / __slots__ strings: leave those names alone
    return stored - defined


class AttrRename(ast.NodeTransformer):
    def __init__(self, names):
        self.names = names

    def visit_Attribute(self, n):
        self.generic_visit(n)
        if n.attr in self.names:
            n.attr = n.attr + "_priv"
        return n


class TernaryToIf(ast.NodeTransformer):
    """`x = a if c else b` (statement level, single target) -> if c: x = a / else: x = b"""
    def visit_Assign(self, n):
        if len(n.targets) == 1 and isinstance(n.value, ast.IfExp) and isinstance(n.targets[0], (ast.Name, ast.Attribute)):
            import copy
            v = n.value
            return ast.If(test=v.test, body=[ast.Assign(targets=[copy.deepcopy(n.targets[0])], value=v.body)],
                          orelse=[ast.Assign(targets=[copy.deepcopy(n.targets[0])], value=v.orelse)])
        return n


class IfToTernary(ast.NodeTransformer):
    """if c: x = a / else: x = b  ->  x = a if c else b"""
    def visit_If(self, n):
        self.generic_visit(n)
        if len(n.body) == 1 and len(n.orelse) == 1 and all(isinstance(b, ast.Assign) and len(b.targets) == 1 for b in (n.body[0], n.orelse[0])) \
                and ast.dump(n.body[0].targets[0]) == ast.dump(n.orelse[0].targets[0]) and isinstance(n.body[0].targets[0], (ast.Name, ast.Attribute)):
            return ast.Assign(targets=[n.body[0].targets[0]], value=ast.IfExp(test=n.test, body=n.body[0].value, orelse=n.orelse[0].value))
        return n


class AugToPlain(ast.NodeTransformer):
    """`x += e` -> `x = x + e` for plain names and self attributes (not subscripts: evaluated twice)"""
    def visit_AugAssign(self, n):
        import copy
        if isinstance(n.target, ast.Name) or (isinstance(n.target, ast.Attribute) and isinstance(n.target.value, ast.Name)):
            load = copy.deepcopy(n.target)
            load.ctx = ast.Load()
            return ast.Assign(targets=[n.target], value=ast.BinOp(left=load, op=n.op, right=n.value))
        return n


class PlainToAug(ast.NodeTransformer):
    """`x = x + e` -> `x += e`"""
    def visit_Assign(self, n):
        if len(n.targets) == 1 and isinstance(n.value, ast.BinOp) and isinstance(n.targets[0], (ast.Name, ast.Attribute)) \
                and ast.unparse(n.value.left) == ast.unparse(n.targets[0]) and isinstance(n.value.op, (ast.Add, ast.Sub, ast.Mult)):
            return ast.AugAssign(target=n.targets[0], op=n.value.op, value=n.value.right)
        return n


class Kwify(ast.NodeTransformer):
    """positional -> keyword arguments for the calls whose signatures the library fixes: x.subscribe(a, b, c) ->
    x.subscribe(on_next=a, on_error=b, on_completed=c); s.schedule(a, st) -> s.schedule(a, state=st); likewise
    schedule_relative / schedule_absolute / schedule_periodic (3rd positional -> state=)"""
    SIG = {"subscribe": ["on_next", "on_error", "on_completed"], "schedule": [None, "state"],
           "schedule_relative": [None, None, "state"], "schedule_absolute": [None, None, "state"], "schedule_periodic": [None, None, "state"]}

    def visit_Call(self, n):
        self.generic_visit(n)
        if isinstance(n.func, ast.Attribute) and n.func.attr in self.SIG and not any(isinstance(a, ast.Starred) for a in n.args) \
                and not any(k.arg is None for k in n.keywords):
            sig = self.SIG[n.func.attr]
            if len(n.args) <= len(sig):
                keep, kws = [], []
                for a, nm in zip(n.args, sig):
                    if nm is None:
                        keep.append(a)
                    else:
                        kws.append(ast.keyword(arg=nm, value=a))
                if n.func.attr == "subscribe" and len(n.args) == 1:
                    return n        # subscribe(observer): leave the observer form alone
                n.args = keep
                n.keywords = kws + n.keywords
        return n


class Positionalise(ast.NodeTransformer):
    """keyword -> positional where the keyword is the next positional parameter: schedule(a, state=s) -> schedule(a, s)"""
    def visit_Call(self, n):
        self.generic_visit(n)
        if isinstance(n.func, ast.Attribute) and n.func.attr in ("schedule", "schedule_relative", "schedule_absolute", "schedule_periodic"):
            want = 1 if n.func.attr == "schedule" else 2
            if len(n.args) == want and len(n.keywords) == 1 and n.keywords[0].arg == "state":
                n.args = n.args + [n.keywords[0].value]
                n.keywords = []
        return n


class InsertNoop(ast.NodeTransformer):
    calls = False

    """a no-effect expression statement (a stray string constant — stands for a log call / comment) after the docstring of
    every function and at the start of every other block: rules must not depend on statement positions"""
    def generic_visit(self, n):
        super().generic_visit(n)
        for fld in ("body", "orelse", "finalbody"):
            b = getattr(n, fld, None)
            if isinstance(b, list) and b and isinstance(b[0], ast.stmt) and not isinstance(n, (ast.ClassDef, ast.Module)):
                k = 1 if (fld == "body" and isinstance(n, (ast.FunctionDef, ast.AsyncFunctionDef)) and isinstance(b[0], ast.Expr)
                          and isinstance(b[0].value, ast.Constant) and isinstance(b[0].value.value, str)) else 0
                if len(b) > k and isinstance(b[k], (ast.Nonlocal, ast.Global)):
                    while k < len(b) and isinstance(b[k], (ast.Nonlocal, ast.Global)):
                        k += 1
                b.insert(k, ast.Expr(ast.Call(func=ast.Name("print", ast.Load()), args=[ast.Constant("note")], keywords=[])) if self.calls
                         else ast.Expr(ast.Constant("note")))
        return n


class RenameNestedFns(ast.NodeTransformer):
    """closures (functions defined inside functions) get another name: `def on_next(...)` -> `def on_next_h(...)`, with every
    reference in the enclosing function updated.  Names that are also parameters / assigned names somewhere in the function are skipped."""
    def _fn(self, n):
        self.generic_visit(n)
        inner = [b.name for b in ast.walk(n) if isinstance(b, (ast.FunctionDef, ast.AsyncFunctionDef)) and b is not n]
        if not inner:
            return n
        bound = set()
        for x in ast.walk(n):
            if isinstance(x, ast.arg):
                bound.add(x.arg)
            if isinstance(x, ast.Name) and isinstance(x.ctx, ast.Store):
                bound.add(x.id)
            if isinstance(x, ast.keyword) and x.arg:
                bound.add(x.arg)
        ren = {nm: nm + "_h" for nm in set(inner) if nm not in bound and not nm.endswith("_h") and inner.count(nm) == 1}
        if not ren:
            return n
        for x in ast.walk(n):
            if x is n:
                continue
            if isinstance(x, (ast.FunctionDef, ast.AsyncFunctionDef)) and x.name in ren:
                x.name = ren[x.name]
            if isinstance(x, ast.Name) and x.id in ren:
                x.id = ren[x.id]
        return n
    visit_FunctionDef = visit_AsyncFunctionDef = _fn


class AddDocstrings(ast.NodeTransformer):
    """every function without a docstring gets one (maintainers document code; rules must not count a docstring as a statement)"""
    def visit_FunctionDef(self, n):
        self.generic_visit(n)
        if not (n.body and isinstance(n.body[0], ast.Expr) and isinstance(n.body[0].value, ast.Constant) and isinstance(n.body[0].value.value, str)):
            n.body.insert(0, ast.Expr(ast.Constant("Documented.")))
        return n
    visit_AsyncFunctionDef = visit_FunctionDef


class Annotate(ast.NodeTransformer):
    """`x = v` -> `x: "object" = v` for single plain-name / self-attribute targets (not for nonlocal / global names, not in class
    bodies or at module level, not for tuple targets): maintainers add annotations; Assign and AnnAssign must mean the same"""
    def __init__(self):
        self.stack = []

    def _fn(self, n):
        decl = set()
        todo = list(n.body)
        while todo:
            x = todo.pop()
            if isinstance(x, (ast.FunctionDef, ast.AsyncFunctionDef, ast.ClassDef, ast.Lambda)):
                continue
            if isinstance(x, (ast.Nonlocal, ast.Global)):
                decl |= set(x.names)
            todo += list(ast.iter_child_nodes(x))
        # names annotated must not be used before in the function as nonlocal; also skip names that are parameters? (allowed)
        self.stack.append(decl)
        self.generic_visit(n)
        self.stack.pop()
        return n
    visit_FunctionDef = visit_AsyncFunctionDef = _fn

    def visit_ClassDef(self, n):
        self.stack.append(None)
        self.generic_visit(n)
        self.stack.pop()
        return n

    def visit_Assign(self, n):
        if not self.stack or self.stack[-1] is None or len(n.targets) != 1:
            return n
        t = n.targets[0]
        if isinstance(t, ast.Name) and t.id not in self.stack[-1]:
            return ast.AnnAssign(target=t, annotation=ast.Constant("object"), value=n.value, simple=1)
        if isinstance(t, ast.Attribute) and isinstance(t.value, ast.Name) and t.value.id == "self":
            return ast.AnnAssign(target=t, annotation=ast.Constant("object"), value=n.value, simple=0)
        return n


COMBOS = {"combo": ["flipcmp", "invertif", "rename3", "extractcond", "annotate", "kwify", "aug2plain", "ternary2if", "logcall", "attrrename"],
          "combo2": ["rename2", "cellify", "earlyreturn", "if2ternary", "plain2aug", "positionalise", "docstring", "noop", "attrrename", "flipcmp"]}


def transform(root, kind):
    if kind in COMBOS:
        n = 0
        for k_ in COMBOS[kind]:
            n = transform(root, k_)
        return n
    n = 0
    pda = private_data_attrs(root) if kind == "attrrename" else None
    for dp, _, fns in os.walk(os.path.join(root, "reactivex")):
        for fn in fns:
            if not fn.endswith(".py"):
                continue
            p = os.path.join(dp, fn)
            src = open(p).read()
            tree = ast.parse(src)
            if kind == "flipcmp":
                tree = FlipCmp().visit(tree)
            elif kind == "ternary2if":
                tree = TernaryToIf().visit(tree)
            elif kind == "if2ternary":
                tree = IfToTernary().visit(tree)
            elif kind == "aug2plain":
                tree = AugToPlain().visit(tree)
            elif kind == "plain2aug":
                tree = PlainToAug().visit(tree)
            elif kind == "kwify":
                tree = Kwify().visit(tree)
            elif kind == "positionalise":
                tree = Positionalise().visit(tree)
            elif kind in ("noop", "logcall"):
                t_ = InsertNoop()
                t_.calls = kind == "logcall"
                tree = t_.visit(tree)
            elif kind == "fnrename":
                tree = RenameNestedFns().visit(tree)
            elif kind == "docstring":
                tree = AddDocstrings().visit(tree)
            elif kind == "annotate":
                tree = Annotate().visit(tree)
            elif kind == "attrrename":
                tree = AttrRename(pda).visit(tree)
            elif kind == "invertif":
                tree = InvertIf().visit(tree)
            elif kind == "rename":
                tree = RenameLocals().visit(tree)
            elif kind == "earlyreturn":
                tree = EarlyReturn().visit(tree)
            elif kind == "extractcond":
                tree = ExtractCond().visit(tree)
            elif kind == "cellify":
                out = cellify(p)
                compile(out, p, "exec")
                open(p, "w").write(out + "\n")
                n += 1
                continue
            elif kind in ("rename2", "rename3"):
                out = rename_closure_vars(p, opaque=(kind == "rename3"))
                compile(out, p, "exec")
                open(p, "w").write(out + "\n")
                n += 1
                continue
            ast.fix_missing_locations(tree)
            out = ast.unparse(tree)
            compile(out, p, "exec")
            open(p, "w").write(out + "\n")
            n += 1
    return n


def main():
    kinds = [a for a in sys.argv[1:] if not a.startswith("--")] or ["all"]
    if kinds == ["all"]:
        kinds = ["unparse", "flipcmp", "invertif", "rename", "rename2", "rename3", "extractcond", "cellify", "earlyreturn", "attrrename", "docstring", "annotate", "ternary2if", "if2ternary", "aug2plain", "plain2aug", "kwify", "positionalise", "noop", "logcall", "combo", "combo2"]
    bad = 0
    for kind in kinds:
        tmp = tempfile.mkdtemp(prefix="rxsa_rf_")
        try:
            shutil.copytree("/repo/reactivex", os.path.join(tmp, "reactivex"), ignore=shutil.ignore_patterns("__pycache__"))
            n = transform(tmp, kind)
            env = dict(os.environ, RXSA_REPO=tmp, RXSA_EVID_DIR=os.path.join(tmp, "evidence"))
            out = subprocess.run([sys.executable, os.path.join(V, "tools", "run_all.py"), "quick"], env=env, capture_output=True, text=True).stdout
            lines = [l for l in out.splitlines() if " rc=" in l and " rc=0 " not in l]
            print(f"== {kind}: {n} files transformed; {len(lines)} checks not silent")
            for l in lines:
                print("   ", l[:200])
            bad += len(lines)
            if "--keep" in sys.argv:
                print("kept", tmp); tmp = None
        finally:
            if tmp:
                shutil.rmtree(tmp, ignore_errors=True)
    return 1 if bad else 0


if __name__ == "__main__":
    sys.exit(main())
