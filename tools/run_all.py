"""Run every registered quick (or thorough) check in parallel; print one line per check.
usage: python3 tools/run_all.py [quick|thorough] [Cxx ...]"""
import json, os, subprocess, sys
from concurrent.futures import ThreadPoolExecutor
V = os.path.dirname(os.path.dirname(os.path.abspath(__file__)))
tier = "thorough" if "thorough" in sys.argv else "quick"
only = [a for a in sys.argv[1:] if a.startswith("C")]
man = json.load(open(os.path.join(V, "MANIFEST.json")))
checks = [c for c in man["checks"] if not only or c["property_id"] in only]
def run(c):
    cmd = c["thorough_cmd"] if tier == "thorough" and c.get("thorough_cmd") else c["quick_cmd"]
    p = subprocess.run(cmd, shell=True, cwd=V, capture_output=True, text=True)
    return c["property_id"], p.returncode, p.stdout + p.stderr
bad = 0
with ThreadPoolExecutor(16) as ex:
    for pid, rc, out in ex.map(run, checks):
        viol = [l for l in out.splitlines() if l.startswith("VIOLATION")]
        rules = sorted({l.split("rule=")[1].split()[0] for l in out.splitlines() if l.strip().startswith("rule=")})
        last = out.strip().splitlines()[-1] if out.strip() else ""
        if rc != 0:
            bad += 1
        print(f"{pid} rc={rc} violations={len(viol)} {','.join(rules)} | {last[:150] if rc==2 else ''}")
print(f"{len(checks)} checks, {bad} non-zero")
sys.exit(1 if bad else 0)
