"""Run all registered quick checks against every kept seeded change and write seeded/RESULTS.json/.md.

Each seed is applied to a scratch copy of /repo's package (outside /repo and /verif, removed afterwards); the checks
read it through RXSA_REPO and write their evidence to a scratch directory, so neither /repo nor /verif/evidence is
touched.  (tools/seedcheck.sh does the same against /repo itself: git apply / run / git checkout.)"""
import json, os, shutil, subprocess, sys, tempfile
from concurrent.futures import ThreadPoolExecutor
V = os.path.dirname(os.path.dirname(os.path.abspath(__file__)))
S = os.path.join(V, "seeded")


REGISTERED = "--registered" in sys.argv


def one(name):
    d = os.path.join(S, name)
    pf = os.path.join(d, "patch.diff")
    meta = json.load(open(os.path.join(d, "meta.json")))
    tmp = tempfile.mkdtemp(prefix="rxsa_seed_")
    try:
        shutil.copytree("/repo/reactivex", os.path.join(tmp, "reactivex"), ignore=shutil.ignore_patterns("__pycache__"))
        ap = subprocess.run(["patch", "-p1", "-s", "--no-backup-if-mismatch", "-i", pf], cwd=tmp, capture_output=True, text=True)
        if ap.returncode != 0:
            return {"seed": name, "property": meta.get("property"), "title": meta.get("title"), "applies": False, "fired": [], "analysis_errors": []}
        env = dict(os.environ, RXSA_REPO=tmp, RXSA_EVID_DIR=os.path.join(tmp, "evidence"))
        if REGISTERED:
            out = subprocess.run([sys.executable, os.path.join(V, "tools", "run_all.py"), "quick"], capture_output=True, text=True, env=env).stdout
        else:
            # all 44 quick rules in one process over one parsed tree (same verdicts as the registered commands: cross-checked on
            # every kept seed; `--registered` runs the registered commands instead, 30x slower)
            out = subprocess.run([sys.executable, "-m", "sa.multi"], cwd=V, capture_output=True, text=True, env=env).stdout
    finally:
        shutil.rmtree(tmp, ignore_errors=True)
    fired, errors = [], []
    for l in out.splitlines():
        if " rc=1 " in l and REGISTERED:
            pid = l.split()[0]
            rules = l.split("violations=")[1].split(" ", 1)[1].split("|")[0].strip()
            fired.append(f"{pid}:{rules}")
        elif " rc=1" in l and not REGISTERED:
            fired.append(f"{l.split()[0]}:{l.split()[2] if len(l.split()) > 2 else ''}")
        if " rc=2" in l:
            errors.append(l.split()[0])
    return {"seed": name, "property": meta.get("property"), "title": meta.get("title"), "applies": True, "fired": fired, "analysis_errors": errors}


def main():
    names = [n for n in sorted(os.listdir(S)) if os.path.isfile(os.path.join(S, n, "patch.diff")) and not n.startswith("_")]
    with ThreadPoolExecutor(4 if REGISTERED else 12) as ex:
        rows = list(ex.map(one, names))
    json.dump(rows, open(os.path.join(S, "RESULTS.json"), "w"), indent=1)
    with open(os.path.join(S, "RESULTS.md"), "w") as fh:
        fh.write("| seed | property | change | detected by (check:rules) |\n|---|---|---|---|\n")
        for r in rows:
            det = ", ".join(r["fired"]) if r["fired"] else ("(patch no longer applies)" if not r["applies"] else "**MISSED**")
            own = any(f.split(":")[0] == r["property"] for f in r["fired"])
            fh.write(f"| {r['seed']} | {r['property']} | {r['title']} | {det}{'' if own or not r['fired'] else ' (not by its own property check)'} |\n")
    n = sum(1 for r in rows if r["fired"])
    print(f"{n}/{len(rows)} seeded changes detected")
    for r in rows:
        if not r["fired"]:
            print("MISSED" if r["applies"] else "NOAPPLY", r["seed"], r["title"])
        if r["analysis_errors"]:
            print("ANALYSIS-ERROR on", r["seed"], r["analysis_errors"])
    return 0


if __name__ == "__main__":
    sys.exit(main())
