"""Apply every kept seeded change to /repo in turn, run all registered quick checks, undo; write seeded/RESULTS.json/.md."""
import json, os, subprocess, sys
V = os.path.dirname(os.path.dirname(os.path.abspath(__file__)))
S = os.path.join(V, "seeded")
assert subprocess.run(["git", "-C", "/repo", "diff", "--quiet"]).returncode == 0, "/repo dirty"
rows = []
for name in sorted(os.listdir(S)):
    d = os.path.join(S, name)
    pf = os.path.join(d, "patch.diff")
    if not os.path.isfile(pf):
        continue
    meta = json.load(open(os.path.join(d, "meta.json")))
    ap = subprocess.run(["git", "-C", "/repo", "apply", pf], capture_output=True, text=True)
    if ap.returncode != 0:
        rows.append({"seed": name, "property": meta.get("property"), "title": meta.get("title"), "applies": False, "fired": []})
        continue
    try:
        out = subprocess.run([sys.executable, os.path.join(V, "tools", "run_all.py"), "quick"], capture_output=True, text=True).stdout
    finally:
        subprocess.run(["git", "-C", "/repo", "checkout", "--", "."])
    fired = []
    errors = []
    for l in out.splitlines():
        if " rc=1 " in l:
            pid = l.split()[0]
            rules = l.split("violations=")[1].split(" ", 1)[1].split("|")[0].strip()
            fired.append(f"{pid}:{rules}")
        if " rc=2 " in l:
            errors.append(l.split()[0])
    rows.append({"seed": name, "property": meta.get("property"), "title": meta.get("title"), "applies": True,
                 "fired": fired, "analysis_errors": errors})
json.dump(rows, open(os.path.join(S, "RESULTS.json"), "w"), indent=1)
with open(os.path.join(S, "RESULTS.md"), "w") as fh:
    fh.write("| seed | property | change | detected by |\n|---|---|---|---|\n")
    for r in rows:
        det = ", ".join(r["fired"]) if r["fired"] else ("(patch no longer applies)" if not r["applies"] else "**MISSED**")
        fh.write(f"| {r['seed']} | {r['property']} | {r['title']} | {det} |\n")
n = sum(1 for r in rows if r["fired"])
print(f"{n}/{len(rows)} seeded changes detected")
for r in rows:
    if not r["fired"]:
        print("MISSED" if r["applies"] else "NOAPPLY", r["seed"], r["title"])
