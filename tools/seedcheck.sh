#!/bin/sh
# usage: tools/seedcheck.sh <patch.diff>   -- applies the patch to /repo, runs all quick checks, reverts
set -e
P="$1"
git -C /repo diff --quiet || { echo "/repo dirty"; exit 2; }
git -C /repo apply "$P"
python3 /verif/tools/run_all.py quick | grep -v "rc=0" || true
git -C /repo checkout -- .
git -C /repo status --short
