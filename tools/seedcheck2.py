"""usage: tools/seedcheck2.py <patch.diff> ...   -- apply each patch to a scratch copy of /repo/reactivex (outside /repo and
/verif, removed afterwards), run all 44 quick rules on it in one process (sa.multi) and print the checks that fire.
Same verdicts as tools/seedcheck.sh (which applies to /repo and runs the registered commands) without touching /repo."""
import os, shutil, subprocess, sys, tempfile
V = os.path.dirname(os.path.dirname(os.path.abspath(__file__)))
for pf in sys.argv[1:]:
    tmp = tempfile.mkdtemp(prefix="rxsa_sc_")
    try:
        shutil.copytree("/repo/reactivex", os.path.join(tmp, "reactivex"), ignore=shutil.ignore_patterns("__pycache__"))
        ap = subprocess.run(["patch", "-p1", "-s", "--no-backup-if-mismatch", "-i", os.path.abspath(pf)], cwd=tmp, capture_output=True, text=True)
        if ap.returncode:
            print(pf, "PATCH DOES NOT APPLY", ap.stdout[:200])
            continue
        out = subprocess.run([sys.executable, "-m", "sa.multi"], cwd=V, env=dict(os.environ, RXSA_REPO=tmp), capture_output=True, text=True).stdout
        hits = [l for l in out.splitlines() if " rc=0" not in l]
        print(f"== {pf}: " + ("; ".join(hits) if hits else "NO CHECK FIRES"))
    finally:
        shutil.rmtree(tmp, ignore_errors=True)
