"""Regenerate Appendix C of DESIGN.md (between the GENERATED markers) from evidence/, known_findings.json, seeded/RESULTS.json
and the self-test catalogue."""
import os, subprocess, sys, re, glob, importlib
V = os.path.dirname(os.path.dirname(os.path.abspath(__file__)))
sys.path.insert(0, V)
body = subprocess.run([sys.executable, os.path.join(V, "tools", "gen_rules_appendix.py")], capture_output=True, text=True).stdout
fire = silent = 0
for f in sorted(glob.glob(os.path.join(V, "sa", "selftest", "cases", "C*.py"))):
    ns = {}
    exec(open(f).read(), ns)
    for c in ns.get("CASES", []):
        if c["expect"] == "fire":
            fire += 1
        else:
            silent += 1
n_seeds = len([d for d in os.listdir(os.path.join(V, "seeded")) if os.path.isfile(os.path.join(V, "seeded", d, "patch.diff"))])
head = (f"## Appendix C — generated tables\n\nSelf-test catalogue: {fire} must-fire mutants, {silent} must-stay-silent refactors. "
        f"Seeded changes kept: {n_seeds}.\n\n")
p = os.path.join(V, "DESIGN.md")
s = open(p).read()
a = s.index("<!-- BEGIN GENERATED APPENDIX C -->") + len("<!-- BEGIN GENERATED APPENDIX C -->")
b = s.index("<!-- END GENERATED APPENDIX C -->")
s = s[:a] + "\n" + head + body + "\n" + s[b:]
open(p, "w").write(s)
print("DESIGN.md appendix C regenerated:", fire, silent, n_seeds)
